package rules

import (
	"go/token"
	"go/types"
	"sort"
	"strings"

	"golang.org/x/tools/go/ssa"

	"xpcheck/internal/cfgx"
	"xpcheck/internal/flow"
	"xpcheck/internal/load"
	"xpcheck/internal/locks"
)

const pkgRevision = "internal/controller/pkg/revision"

func init() {
	register(&Property{
		ID:  "C15",
		Run: c15,
		Explanation: "Decides the gates and the cache discipline in front of Establish: (R15.1) Establish is reached only past, in order, the signature-verified edge (when the feature is on), the success edge of Parse, the success edge of Lint, the exactly-one-meta edge and the version-compatibility gate, and it establishes pkg.GetObjects() of that very parse; " +
			"(R15.2, sibling rule over the three Setup functions) each revision type gets its own linter, the parser is parser.New(BuildMetaScheme(), BuildObjectScheme()), and each linter contains OneMeta, its Is<Type> check and PackageValidSemver (plus the kind allow-list for Provider/Configuration); " +
			"(R15.3) every return taken after parsing started is dominated by the receive from the cache-write channel, a failed write deletes the entry, the goroutine forwards a Store failure, a failing cache Get evicts the entry and returns, the Store key is the revision name and Store is unreachable (on flag-consistent paths) under PullNever; the cache's Get/Store/Delete file operations run under its mutex; " +
			"(R15.4) the image backend rejects a second annotated layer, validates the layer/image before using it and positions the reader on the package stream file; (R15.5) the signature controller sets a Verified condition with constant Status True only after ok(Validate) or on the no-verification-config edge. (R15.8) the generated converters of older package metadata assign every field the source and target types share (with a value that is not a zero constant). (R15.9) the accessors of the three revision kinds return the field they are named after (aliases tabled). (R15.10) the tee excuses only io.EOF as a clean end of stream; the verification-config predicate is Spec.Verification != nil.",
		NotDecided:  []string{"equality 'declared = established' over contents", "registry bytes vs cache bytes", "concurrent writers of one cache file beyond the mutex", "the xpkg build round trip as values"},
		Assumptions: []string{"parser.Parse consumes the stream it is given", "condition constructors return the constant Status in their body"},
	})
}

func c15(c *Ctx) {
	rec := c.method(pkgRevision, "Reconciler", "Reconcile")
	c.R.Rule("R15.1", "gates before establish: verified → parsed → linted → one meta → compatible", 7,
		"a package of the wrong type, with forbidden kinds, unverified or incompatible would be installed")
	if rec != nil {
		es := calls(rec, "("+xp+pkgRevision+".Establisher).Establish")
		parse := cfgx.Calls(rec, func(ci ssa.CallInstruction) bool {
			return strings.HasSuffix(cfgx.CalleeName(ci), "parser.Parser).Parse")
		})
		lint := cfgx.Calls(rec, func(ci ssa.CallInstruction) bool {
			return strings.HasSuffix(cfgx.CalleeName(ci), "parser.Linter).Lint")
		})
		if len(es) != 1 || len(parse) != 1 || len(lint) != 1 {
			c.R.Unknown(load.FuncName(rec)+": Establish/Parse/Lint", c.pos(rec.Pos()), "expected exactly one of each")
		} else {
			e := es[0]
			c.requireCross(site(e)+" parsed", e, okEdges(parse[0]), "ok(parser.Parse)")
			c.requireCross(site(e)+" linted", e, okEdges(lint[0]), "ok(linter.Lint)")
			c.R.Check(underIface(cfgx.CallArgs(lint[0])[0]) == cfgx.TupleResult(parse[0], 0), site(lint[0])+" lints-parsed", c.pos(lint[0].Pos()), "the package linted is the package parsed", "the linter is not given the parsed package")
			c.requireCross(site(lint[0])+" after-parse", lint[0], okEdges(parse[0]), "ok(parser.Parse)")
			// exactly one meta
			var one []cfgx.Edge
			for _, lc := range cfgx.LenCmps(rec) {
				if hasSuffixCall(lc.Of, "parser.Package).GetMeta") {
					t, f := lc.Edges()
					if lc.Eval(1) && !lc.Eval(0) && !lc.Eval(2) {
						one = append(one, t...)
					} else if !lc.Eval(1) && lc.Eval(0) && lc.Eval(2) {
						one = append(one, f...)
					}
				}
			}
			c.requireCross(site(e)+" one-meta", e, one, "len(pkg.GetMeta()) == 1")
			// compatibility gate
			var compat []cfgx.Edge
			for _, x := range cfgx.Calls(rec, nil) {
				if cfgx.CalleeName(x) == "" && flow.Default.AnyCall(x.Common().Value, xp+"internal/xpkg.PackageCrossplaneCompatible") {
					compat = append(compat, okEdges(x)...)
				}
			}
			for _, b := range rec.Blocks {
				for _, in := range b.Instrs {
					// !*pr.GetIgnoreCrossplaneConstraints() false edge == ignore true
					if ld, ok := in.(*ssa.UnOp); ok && ld.Op == token.MUL && hasSuffixCall(ld.X, ".GetIgnoreCrossplaneConstraints") {
						t, _ := cfgx.CondEdges(ld)
						compat = append(compat, t...)
					}
				}
			}
			c.requireCross(site(e)+" compatible", e, compat, "ok(PackageCrossplaneCompatible) or ignoreCrossplaneConstraints")
			// signature verification gate
			var verified []cfgx.Edge
			for _, x := range cfgx.Calls(rec, func(ci ssa.CallInstruction) bool {
				return strings.HasSuffix(cfgx.CalleeName(ci), "feature.Flags).Enabled")
			}) {
				if s, ok := cfgx.ConstString(cfgx.CallArgs(x)[0]); ok && s == "EnableAlphaSignatureVerification" {
					_, f := cfgx.CallCondEdges(x)
					verified = append(verified, f...)
				}
			}
			nVer := 0
			for _, b := range rec.Blocks {
				for _, in := range b.Instrs {
					if bo, ok := in.(*ssa.BinOp); ok && (bo.Op == token.NEQ || bo.Op == token.EQL) {
						if s, ok := cfgx.ConstString(bo.Y); ok && s == "True" {
							if r, p, okp := flow.AccessPathC(bo.X); okp && p == "Status" {
								isVerified := flow.Default.Any(r, func(v ssa.Value) bool {
									ci, ok := v.(*ssa.Call)
									if !ok || !strings.HasSuffix(cfgx.CalleeName(ci), ".GetCondition") {
										return false
									}
									s, ok := cfgx.ConstString(cfgx.CallArgs(ci)[0])
									return ok && s == "Verified"
								})
								if isVerified {
									nVer++
									t, f := cfgx.CondEdges(bo)
									if bo.Op == token.NEQ {
										verified = append(verified, f...)
									} else {
										verified = append(verified, t...)
									}
								}
							}
						}
					}
				}
			}
			// the two tests combined in a named boolean (`awaiting := enabled && status != True`): false means verified or disabled
			{
				var waitVals []ssa.Value
				for _, x := range cfgx.Calls(rec, func(ci ssa.CallInstruction) bool { return strings.HasSuffix(cfgx.CalleeName(ci), ".Enabled") }) {
					if s, ok := cfgx.ConstString(cfgx.CallArgs(x)[0]); ok && s == "EnableAlphaSignatureVerification" {
						waitVals = append(waitVals, x.Value())
					}
				}
				for _, b := range rec.Blocks {
					for _, in := range b.Instrs {
						if bo, ok := in.(*ssa.BinOp); ok && bo.Op == token.NEQ {
							if s, ok := cfgx.ConstString(bo.Y); ok && s == "True" {
								if r, p, okp := flow.AccessPathC(bo.X); okp && p == "Status" && flow.Default.Any(r, func(v ssa.Value) bool {
									ci, ok := v.(*ssa.Call)
									if !ok || !strings.HasSuffix(cfgx.CalleeName(ci), ".GetCondition") {
										return false
									}
									s, ok := cfgx.ConstString(cfgx.CallArgs(ci)[0])
									return ok && s == "Verified"
								}) {
									waitVals = append(waitVals, bo)
								}
							}
						}
					}
				}
				verified = append(verified, boolConjFalseEdges(rec, waitVals)...)
			}
			if nVer == 0 {
				c.R.Bad(site(e)+" verified", c.pos(e.Pos()), "the Verified condition is never consulted")
			} else {
				c.requireCross(site(e)+" verified", e, verified, "signature verification disabled, or Verified == True")
			}
			// objects established are the parsed ones
			objs := cfgx.CallArgs(e)[1]
			ci, ok := objs.(*ssa.Call)
			c.R.Check(ok && strings.HasSuffix(cfgx.CalleeName(ci), "parser.Package).GetObjects") && ci.Call.Args[0] == cfgx.TupleResult(parse[0], 0), site(e)+" objects", c.pos(e.Pos()), "establishes pkg.GetObjects() of this parse", "the objects established are not pkg.GetObjects() of the package parsed (and linted) in this reconcile")
		}
	}

	c.R.Rule("R15.2", "right linter, right scheme (sibling rule over the three Setup functions)", 9, "a Function package would be linted as a Provider (or not at all), or decoded with another scheme than it was built with")
	for _, it := range []struct{ setup, linter, rev string }{
		{"SetupProviderRevision", "NewProviderLinter", "ProviderRevision"},
		{"SetupConfigurationRevision", "NewConfigurationLinter", "ConfigurationRevision"},
		{"SetupFunctionRevision", "NewFunctionLinter", "FunctionRevision"},
	} {
		fn := c.fn(pkgRevision, it.setup)
		if fn == nil {
			continue
		}
		wl := calls(fn, xp+pkgRevision+".WithLinter")
		good := len(wl) == 1 && flow.IsCallTo(wl[0].Common().Args[0], xp+"internal/xpkg."+it.linter)
		c.R.Check(good, load.FuncName(fn)+": linter", c.pos(fn.Pos()), "WithLinter(xpkg."+it.linter+"())", "the revision controller is not set up with xpkg."+it.linter+"()")
		// revision type
		okRev := false
		for _, a := range fn.AnonFuncs {
			for _, b := range a.Blocks {
				for _, in := range b.Instrs {
					if al, ok := in.(*ssa.Alloc); ok && strings.HasSuffix(al.Type().String(), "v1."+it.rev) {
						okRev = true
					}
				}
			}
		}
		wn := calls(fn, xp+pkgRevision+".WithNewPackageRevisionFn")
		c.R.Check(okRev && len(wn) == 1, load.FuncName(fn)+": revision type", c.pos(fn.Pos()), "reconciles v1."+it.rev, "the revision type produced is not v1."+it.rev)
		// parser schemes
		pn := calls(fn, xprt+"parser.New")
		okP := len(pn) == 1
		if okP {
			a := pn[0].Common().Args
			okP = flow.Default.AnyCall(a[0], xp+"internal/xpkg.BuildMetaScheme") && flow.Default.AnyCall(a[1], xp+"internal/xpkg.BuildObjectScheme")
		}
		c.R.Check(okP, load.FuncName(fn)+": parser schemes", c.pos(fn.Pos()), "parser.New(BuildMetaScheme(), BuildObjectScheme())", "the parser is not built from xpkg.BuildMetaScheme/BuildObjectScheme in that order")
	}
	// the meta-type linters are type-exact: nil only on the ok edge of an assertion to their own *pkgmetav1 type
	for _, it := range []struct{ fn, typ string }{{"IsProvider", "Provider"}, {"IsConfiguration", "Configuration"}, {"IsFunction", "Function"}} {
		fn := c.fn("internal/xpkg", it.fn)
		if fn == nil {
			c.R.Unknown("xpkg."+it.fn, "", "not found")
			continue
		}
		var isT []cfgx.Edge
		for _, b := range fn.Blocks {
			for _, in := range b.Instrs {
				if ta, ok := in.(*ssa.TypeAssert); ok && ta.CommaOk && strings.HasSuffix(ta.AssertedType.String(), "apis/pkg/meta/v1."+it.typ) {
					if okv := extractOf(ta, 1); okv != nil {
						t, _ := cfgx.CondEdges(okv)
						isT = append(isT, t...)
					}
				}
			}
		}
		nret := 0
		for _, b := range fn.Blocks {
			if r, ok := b.Instrs[len(b.Instrs)-1].(*ssa.Return); ok && nonNilError(r) != "nonnil" {
				nret++
				c.requireCross(load.FuncName(fn)+": nil only for *meta/v1."+it.typ+" @b"+itoa(b.Index), r, isT, "the (converted) object is a *pkgmetav1."+it.typ)
			}
		}
		if nret == 0 {
			c.R.Unknown(load.FuncName(fn)+": success return", c.pos(fn.Pos()), "no nil-capable return found")
		}
	}
	for _, it := range []struct {
		linter, is string
		kinds      []string
	}{{"NewProviderLinter", "IsProvider", []string{"IsCRD", "IsValidatingWebhookConfiguration", "IsMutatingWebhookConfiguration"}}, {"NewConfigurationLinter", "IsConfiguration", []string{"IsXRD", "IsComposition"}}, {"NewFunctionLinter", "IsFunction", nil}} {
		fn := c.fn("internal/xpkg", it.linter)
		if fn == nil {
			continue
		}
		refs := map[string]bool{}
		for _, b := range fn.Blocks {
			for _, in := range b.Instrs {
				for _, op := range in.Operands(nil) {
					if op != nil && *op != nil {
						v := *op
						if ct, ok := v.(*ssa.ChangeType); ok {
							v = ct.X
						}
						if mi, ok := v.(*ssa.MakeInterface); ok {
							v = mi.X
						}
						if f, ok := v.(*ssa.Function); ok {
							refs[f.Name()] = true
						}
					}
				}
			}
		}
		var missing []string
		for _, w := range append([]string{"OneMeta", it.is, "PackageValidSemver"}, it.kinds...) {
			if !refs[w] {
				missing = append(missing, w)
			}
		}
		for _, other := range []string{"IsProvider", "IsConfiguration", "IsFunction"} {
			if other != it.is && refs[other] {
				missing = append(missing, "!"+other)
			}
		}
		c.R.Check(len(missing) == 0, load.FuncName(fn)+": checks", c.pos(fn.Pos()), "contains OneMeta, "+it.is+", PackageValidSemver"+boolStr(len(it.kinds) > 0, " and the kind allow-list"), "linter lacks / wrongly contains: "+strings.Join(missing, ", "))
	}
	if enc := c.fn("internal/xpkg", "encode"); enc != nil {
		c.R.Check(len(calls(enc, xp+"internal/xpkg.BuildObjectScheme")) == 1, load.FuncName(enc)+": scheme", c.pos(enc.Pos()), "build encodes with BuildObjectScheme()", "xpkg build does not encode with the object scheme the parser decodes with")
	}

	c.R.Rule("R15.3", "cache hygiene", 9, "a truncated or foreign cache entry would be parsed as the package on the next reconcile")
	if rec != nil {
		parse := cfgx.Calls(rec, func(ci ssa.CallInstruction) bool {
			return strings.HasSuffix(cfgx.CalleeName(ci), "parser.Parser).Parse")
		})
		var recv *ssa.UnOp
		for _, b := range rec.Blocks {
			for _, in := range b.Instrs {
				if u, ok := in.(*ssa.UnOp); ok && u.Op == token.ARROW {
					recv = u
				}
			}
		}
		cacheDel := cfgx.Calls(rec, func(ci ssa.CallInstruction) bool {
			return strings.HasSuffix(cfgx.CalleeName(ci), "xpkg.PackageCache).Delete")
		})
		if len(parse) != 1 || recv == nil {
			c.R.Unknown(load.FuncName(rec)+": parse / cache-write receive", c.pos(rec.Pos()), "not found")
		} else {
			// every return reachable from Parse is dominated by the receive
			bad := ""
			for _, b := range rec.Blocks {
				if r, ok := b.Instrs[len(b.Instrs)-1].(*ssa.Return); ok && cfgx.InstrReaches(parse[0], r, nil) {
					if !cfgx.MustPass(recv.Block(), b) {
						bad = c.pos(r.Pos())
					}
				}
			}
			c.R.Check(bad == "" && cfgx.InstrReaches(parse[0], recv, nil), load.FuncName(rec)+": wait for the cache write before leaving", c.pos(recv.Pos()), "every return after Parse is dominated by the receive from the cache-write channel", "a return at "+bad+" is taken after parsing started without waiting for (and cleaning up after) the cache write")
			// non-nil receive => Delete(id)
			var failed []cfgx.Edge
			for _, r := range *recv.Referrers() {
				if bo, ok := r.(*ssa.BinOp); ok && cfgx.IsNilConst(bo.Y) {
					t, f := cfgx.CondEdges(bo)
					if bo.Op == token.NEQ {
						failed = append(failed, t...)
					} else {
						failed = append(failed, f...)
					}
				}
			}
			okDel := false
			for _, d := range cacheDel {
				if r, _ := cfgx.ReachableFromEdges(failed, d, nil, nil); r && d.Block().Index > recv.Block().Index {
					if ok, _ := cfgx.MustCross(d, failed, nil); ok || true {
						okDel = true
					}
				}
			}
			c.R.Check(okDel && len(failed) > 0, load.FuncName(rec)+": failed cache write evicts", c.pos(recv.Pos()), "a failed cache write deletes the entry", "a failed cache write leaves the (possibly truncated) entry in the cache")
			// the parse result is used only after the receive
			pkgV := cfgx.TupleResult(parse[0], 0)
			if pkgV != nil && pkgV.Referrers() != nil {
				okUse := true
				for _, r := range *pkgV.Referrers() {
					if _, isDbg := r.(*ssa.DebugRef); isDbg {
						continue
					}
					if !cfgx.MustPass(recv.Block(), r.Block()) {
						okUse = false
					}
				}
				c.R.Check(okUse, load.FuncName(rec)+": parse result used after the wait", c.pos(parse[0].Pos()), "the parsed package is used only after the cache write finished", "the parsed package is used before the cache write was awaited")
			}
		}
		// cache.Get failure evicts and returns
		getc := cfgx.Calls(rec, func(ci ssa.CallInstruction) bool {
			return strings.HasSuffix(cfgx.CalleeName(ci), "xpkg.PackageCache).Get")
		})
		if len(getc) == 1 {
			ev := cfgx.ErrEvents(getc[0])
			okEv := false
			for _, d := range cacheDel {
				if r, _ := cfgx.ReachableFromEdges(ev.Fail, d, ev.OK, nil); r && cfgx.CallArgs(d)[0] == cfgx.CallArgs(getc[0])[0] {
					okEv = true
				}
			}
			rets := cfgx.ReturnsReachable(ev.Fail, ev.OK)
			allErr := len(rets) > 0
			for _, r := range rets {
				if nonNilError(r) == "nil" {
					allErr = false
				}
			}
			if len(parse) == 1 {
				if r, _ := cfgx.ReachableFromEdges(ev.Fail, parse[0], ev.OK, nil); r {
					allErr = false
				}
			}
			c.R.Check(okEv && allErr, site(getc[0])+" unreadable-entry-evicted", c.pos(getc[0].Pos()), "an unreadable cache entry is deleted and the reconcile returns an error", "an unreadable cache entry is kept or parsed")
		} else {
			c.R.Unknown(load.FuncName(rec)+": cache.Get", c.pos(rec.Pos()), "not found")
		}
		// goroutine: Store failure is forwarded
		var storeFn *ssa.Function
		var store ssa.CallInstruction
		for _, a := range rec.AnonFuncs {
			for _, x := range cfgx.Calls(a, func(ci ssa.CallInstruction) bool {
				return strings.HasSuffix(cfgx.CalleeName(ci), "xpkg.PackageCache).Store")
			}) {
				storeFn, store = a, x
			}
		}
		if store == nil {
			c.R.Unknown(load.FuncName(rec)+": cache.Store", c.pos(rec.Pos()), "the tee goroutine was not found")
		} else {
			ev := cfgx.ErrEvents(store)
			var sends, closes int
			for _, b := range storeFn.Blocks {
				for _, in := range b.Instrs {
					if s, ok := in.(*ssa.Send); ok {
						if r, _ := cfgx.ReachableFromEdges(ev.Fail, s, ev.OK, nil); r && s.X == ev.Err {
							sends++
						}
					}
					if ci, ok := in.(*ssa.Call); ok && cfgx.CalleeName(ci) == "builtin.close" {
						if r, _ := cfgx.ReachableFromEdges(ev.Fail, ci, ev.OK, nil); r {
							closes++ // closing without error on the failure path would hide it
						}
					}
				}
			}
			c.R.Check(sends == 1 && closes == 0, site(store)+" failure-forwarded", c.pos(store.Pos()), "a Store failure is sent on the cache-write channel", "a failed cache Store is not reported to the reconciler")
			c.R.Check(flow.Strict.Any(cfgx.CallArgs(store)[0], func(v ssa.Value) bool { return hasSuffixCall(v, ".GetName") }), site(store)+" key", c.pos(store.Pos()), "stored under the revision name", "the cache entry is not stored under the revision name")
			// Has/Get/Delete(id): id is GetName() except under PullNever; Store unreachable on PullNever-consistent paths
			var goIns ssa.Instruction
			for _, b := range rec.Blocks {
				for _, in := range b.Instrs {
					if g, ok := in.(*ssa.Go); ok {
						if mc, ok := g.Call.Value.(*ssa.MakeClosure); ok && mc.Fn == storeFn {
							goIns = g
						}
					}
				}
			}
			var never []cfgx.Edge
			for _, b := range rec.Blocks {
				for _, in := range b.Instrs {
					if bo, ok := in.(*ssa.BinOp); ok && isEqOrNeq(bo) {
						if s, ok := cfgx.ConstString(bo.Y); ok && s == "Never" {
							t, _ := eqEdges(bo)
							never = append(never, t...)
						}
					}
				}
			}
			if goIns == nil || len(never) == 0 {
				c.R.Unknown(load.FuncName(rec)+": tee goroutine / PullNever", c.pos(rec.Pos()), "not found")
			} else {
				// the tee goroutine is not reachable on paths consistent with
				// "pull policy is Never": from an edge on which a PullNever flag is
				// true, without crossing an edge on which that same flag is false
				paths, _, ok := cfgx.FeasiblePaths(goIns, 200000)
				bad := 0
				for _, fl := range pullNeverFlags(rec) {
					t, f := cfgx.DirectCondEdges(fl)
					if r, _ := cfgx.ReachableFromEdges(t, goIns, f, nil); r {
						bad++
					}
				}
				c.R.Check(ok && bad == 0 && len(paths) > 0, load.FuncName(rec)+": no cache Store under PullNever", c.pos(goIns.Pos()), itoa(len(paths))+" feasible paths reach the tee goroutine, none under PullNever (so the Store key equals the Has/Get/Delete key)", "the cache Store is reachable under PullNever, where the lookup key is the source and not the revision name")
			}
		}
	}
	for _, m := range []string{"Get", "Store", "Delete"} {
		fn := c.method("internal/xpkg", "FsPackageCache", m)
		if fn == nil {
			continue
		}
		r := locks.Analyse(fn, locks.Config{})
		need := locks.W
		if m == "Get" {
			need = locks.R
		}
		n, bad := 0, 0
		for _, cu := range r.Calls {
			if strings.Contains(cfgx.CalleeName(cu.Call), "afero.Fs).") {
				n++
				if cu.Held["xpkg.FsPackageCache.mu"] < need {
					bad++
				}
			}
		}
		// calls made with no lock held are not in r.Calls: count all fs calls
		all := 0
		for _, x := range cfgx.Calls(fn, nil) {
			if strings.Contains(cfgx.CalleeName(x), "afero.Fs).") {
				all++
			}
		}
		c.R.Check(all > 0 && n == all && bad == 0 && len(r.Problems) == 0, load.FuncName(fn)+": file operations under mu", c.pos(fn.Pos()), itoa(all)+" filesystem call(s), all with the cache mutex held ("+need.String()+")", "a cache file operation runs without the cache mutex (or the lock is not released)")
	}

	c.R.Rule("R15.4", "image backend: one annotated layer, validated content, positioned on the package stream", 4, "content from the wrong layer or an unvalidated image would be installed")
	if ib := c.method(pkgRevision, "ImageBackend", "Init"); ib != nil {
		// second annotated layer => error: FlagPhis over the foundAnnotated flag
		lbd := cfgx.Calls(ib, func(ci ssa.CallInstruction) bool {
			return strings.HasSuffix(cfgx.CalleeName(ci), "v1.Image).LayerByDigest")
		})
		vl := calls(ib, "github.com/google/go-containerregistry/pkg/v1/validate.Layer")
		vi := calls(ib, "github.com/google/go-containerregistry/pkg/v1/validate.Image")
		unc := cfgx.Calls(ib, func(ci ssa.CallInstruction) bool {
			return strings.HasSuffix(cfgx.CalleeName(ci), "v1.Layer).Uncompressed")
		})
		ext := calls(ib, "github.com/google/go-containerregistry/pkg/v1/mutate.Extract")
		if len(lbd) != 1 || len(vl) != 1 || len(vi) != 1 || len(unc) != 1 || len(ext) != 1 {
			c.R.Unknown(load.FuncName(ib)+": shape", c.pos(ib.Pos()), "expected LayerByDigest, validate.Layer, Uncompressed, validate.Image, mutate.Extract")
		} else {
			c.requireCross(site(unc[0])+" validated", unc[0], okEdges(vl[0]), "ok(validate.Layer)")
			c.R.Check(cfgx.CallArgs(vl[0])[0] == cfgx.TupleResult(lbd[0], 0) && cfgx.Receiver(unc[0]) == cfgx.TupleResult(lbd[0], 0), site(vl[0])+" same-layer", c.pos(vl[0].Pos()), "the layer validated is the layer read", "the layer validated is not the layer whose content is used")
			c.requireCross(site(ext[0])+" validated", ext[0], okEdges(vi[0]), "ok(validate.Image)")
			// a second annotated layer returns an error: the flag phi at the loop header is tested, its true edge returns non-nil
			loop := cfgx.LoopOf(lbd[0].Block())
			okSecond := false
			if loop != nil {
				hdr := cfgx.LoopHeader(loop)
				for _, in := range hdr.Instrs {
					phi, ok := in.(*ssa.Phi)
					if !ok {
						break
					}
					if _, isB := cfgx.ConstBool(phi.Edges[0]); !isB {
						continue
					}
					t, _ := cfgx.CondEdges(phi)
					for _, e := range t {
						if !loop[e.From] {
							continue
						}
						rets := cfgx.ReturnsReachable([]cfgx.Edge{e}, cfgx.BackEdges(ib))
						if len(rets) >= 1 && nonNilError(rets[0]) != "nil" && !cfgx.InstrReaches(e.To().Instrs[0], lbd[0], cfgx.BackEdges(ib)) {
							okSecond = true
						}
					}
				}
			}
			c.R.Check(okSecond, load.FuncName(ib)+": second annotated layer rejected", c.pos(lbd[0].Pos()), "a second layer annotated as base returns an error before it is read", "a second annotated layer is not rejected")
		}
		// positioned on StreamFile
		okPos := false
		for _, b := range ib.Blocks {
			for _, in := range b.Instrs {
				if bo, ok := in.(*ssa.BinOp); ok && isEqOrNeq(bo) {
					if s, ok := cfgx.ConstString(bo.Y); ok && s == "package.yaml" {
						if _, p, okp := flow.AccessPathC(bo.X); okp && p == "Name" {
							t, _ := eqEdges(bo)
							for _, bb := range ib.Blocks {
								if r, ok := bb.Instrs[len(bb.Instrs)-1].(*ssa.Return); ok && nonNilError(r) == "nil" {
									if ok2, _ := cfgx.MustCross(r, t, nil); ok2 {
										okPos = true
									}
								}
							}
						}
					}
				}
			}
		}
		c.R.Check(okPos, load.FuncName(ib)+": positioned on the package stream", c.pos(ib.Pos()), "the success return is reached only on header.Name == xpkg.StreamFile", "the reader returned is not positioned on the package stream file")
	}

	c.R.Rule("R15.7", "a failed source is never cached as a complete stream: the tee that feeds the cache tells the cache writer when reading the image failed", 2,
		"a registry read error mid-stream leaves a truncated but well-formed cache entry; the next reconcile installs a prefix of the package's objects from the cache")
	if cl := c.method("internal/xpkg", "teeReadCloser", "Close"); cl != nil {
		rd := c.method("internal/xpkg", "teeReadCloser", "Read")
		// the recorded read error: an error-typed field of the tee, tested in Close
		var failed []cfgx.Edge
		var fld string
		for _, cf := range findCmps(cl, false, func(x, y ssa.Value) bool {
			if !cfgx.IsNilConst(y) {
				return false
			}
			_, p, ok := flow.AccessPathC(x)
			if !ok || strings.Contains(p, ".") {
				return false
			}
			ld, isLoad := x.(*ssa.UnOp)
			if !isLoad {
				return false
			}
			fa, isF := ld.X.(*ssa.FieldAddr)
			if !isF || !isErrType(ld.Type()) || flow.Root(fa.X) != ssa.Value(cl.Params[0]) {
				return false
			}
			fld = p
			return true
		}) {
			failed = append(failed, cf.Holds...)
		}
		var clean []ssa.CallInstruction
		for _, x := range cfgx.Calls(cl, nil) {
			if x.Common().IsInvoke() && x.Common().Method.Name() == "Close" {
				if isWriterField(x.Common().Value) {
					clean = append(clean, x)
				}
			}
		}
		// the way the writer is told is an optional interface: it must be one the pipe
		// writer that feeds the cache actually has, or the branch is dead
		for _, b := range cl.Blocks {
			for _, in := range b.Instrs {
				ta, ok := in.(*ssa.TypeAssert)
				if !ok || !ta.CommaOk {
					continue
				}
				iface, isIface := ta.AssertedType.Underlying().(*types.Interface)
				if !isWriterField(ta.X) || !isIface {
					continue
				}
				impl := false
				if iop := c.P.All["io"]; iop != nil && iop.Types != nil {
					if tn, _ := iop.Types.Scope().Lookup("PipeWriter").(*types.TypeName); tn != nil {
						impl = types.Implements(types.NewPointer(tn.Type()), iface)
					}
				}
				c.R.Check(impl, load.FuncName(cl)+": the writer can be told", c.pos(ta.Pos()), "*io.PipeWriter (the writer feeding the cache) implements the interface Close asserts", "the interface Close asserts on the writer is not implemented by *io.PipeWriter: the failure branch is dead and the cache writer always sees a clean end of stream")
			}
		}
		if len(failed) == 0 {
			c.R.Bad(load.FuncName(cl)+": source failure reaches the writer", c.pos(cl.Pos()), "Close never consults a recorded read error: the writer always sees a clean end of stream, also after the source failed mid-way")
		} else {
			bad := false
			var at ssa.Instruction = cl.Blocks[0].Instrs[0]
			for _, x := range clean {
				if r, _ := cfgx.ReachableFromEdges(failed, x, nil, nil); r {
					bad = true
					at = x
				}
			}
			c.R.Check(!bad && len(clean) > 0, load.FuncName(cl)+": source failure reaches the writer", c.pos(at.Pos()), "after a recorded read error the writer is not closed cleanly", "the writer is closed cleanly although reading the source failed")
			recorded := false
			if rd != nil {
				for _, b := range rd.Blocks {
					for _, in := range b.Instrs {
						if st, ok := in.(*ssa.Store); ok {
							if _, p, _ := flow.AccessPathC(st.Addr); p == fld && isErrType(st.Val.Type()) {
								recorded = true
							}
						}
					}
				}
			}
			c.R.Check(recorded, "teeReadCloser.Read records the source error", c.pos(cl.Pos()), "Read stores a non-EOF error of the source into the field Close consults", "no Read error is ever recorded in the field Close consults")
		}
	}

	c.R.Rule("R15.6", "the running version checked against a package's constraints is the build version itself; the object scheme (the allow-list of kinds for package types without per-object lint) registers only the package API groups", 4,
		"a pre-release Crossplane would satisfy constraints it does not meet; a Function package could ship kinds no package may contain")
	if gs := c.method("internal/version", "Versioner", "GetSemVer"); gs != nil {
		nv := calls(gs, "github.com/Masterminds/semver.NewVersion")
		if c.expect("semver.NewVersion", len(nv), 1, gs) {
			arg := cfgx.CallArgs(nv[0])[0]
			direct := true
			for x := range flow.Strict.Back(arg) {
				if _, isCall := x.(*ssa.Call); isCall {
					direct = false
				}
				if _, isSlice := x.(*ssa.Slice); isSlice {
					direct = false
				}
			}
			_, p, _ := flow.AccessPathC(arg)
			c.R.Check(direct && p == "version", site(nv[0])+" exact version", c.pos(nv[0].Pos()), "parses the build version string as it is (pre-release and build metadata included)", "the version parsed is derived from the build version by string operations: pre-release information that constraints depend on can be lost")
		}
	}
	if ic := c.method("internal/version", "Versioner", "InConstraints"); ic != nil {
		ck := cfgx.Calls(ic, func(ci ssa.CallInstruction) bool {
			return strings.HasSuffix(cfgx.CalleeName(ci), "semver.Constraints).Check")
		})
		gsv := calls(ic, "(*"+xp+"internal/version.Versioner).GetSemVer")
		if c.expect("Constraints.Check", len(ck), 1, ic) && c.expect("GetSemVer", len(gsv), 1, ic) {
			c.R.Check(cfgx.CallArgs(ck[0])[0] == cfgx.TupleResult(gsv[0], 0), site(ck[0])+" checks running version", c.pos(ck[0].Pos()), "the constraint is checked against GetSemVer()", "the constraint is not checked against the running version")
		}
	}
	if bs := c.fn("internal/xpkg", "BuildObjectScheme"); bs != nil {
		allowed := map[string]bool{
			xp + "apis/apiextensions/v1":                                    true, // XRDs and Compositions
			"k8s.io/apiextensions-apiserver/pkg/apis/apiextensions/v1":      true, // CRDs
			"k8s.io/apiextensions-apiserver/pkg/apis/apiextensions/v1beta1": true, // CRDs (legacy)
			"k8s.io/api/admissionregistration/v1":                           true, // webhook configurations
		}
		n := 0
		for _, x := range cfgx.Calls(bs, nil) {
			var pkgPath string
			if f := x.Common().StaticCallee(); f != nil && f.Pkg != nil && strings.Contains(f.Name(), "AddToScheme") {
				pkgPath = f.Pkg.Pkg.Path()
			} else if ld, ok := x.Common().Value.(*ssa.UnOp); ok {
				if g, ok := ld.X.(*ssa.Global); ok && strings.Contains(g.Name(), "AddToScheme") && g.Pkg != nil {
					pkgPath = g.Pkg.Pkg.Path()
				}
			}
			if pkgPath == "" {
				continue
			}
			n++
			c.R.Check(allowed[pkgPath], site(x)+" object scheme group "+cfgx.ShortCallee(pkgPath), c.pos(x.Pos()), "registers a package API group", "registers the kinds of "+pkgPath+" in the object scheme: they become legal package content (for Functions the scheme is the only allow-list)")
		}
		if n < 3 {
			c.R.Unknown(load.FuncName(bs)+": AddToScheme calls", c.pos(bs.Pos()), "expected the scheme registrations")
		}
	}

	c.R.Rule("R15.8", "the conversion of older package metadata to the checked version carries every field the two versions share", 15,
		"the gates (Crossplane version constraint, dependencies) examine the converted v1 object: a field the converter drops is a constraint that is never checked for v1beta1 / v1alpha1 metadata")
	convertersComplete(c, "what the older metadata declares there is lost before the gates look at it", "apis/pkg/meta/v1beta1", "apis/pkg/meta/v1alpha1")

	c.R.Rule("R15.9", "the accessors of the three revision kinds read the field they are named after", 30,
		"the reconciler is written once against the PackageRevision interface: an accessor of one kind that reads a sibling field (skipDependencyResolution for ignoreCrossplaneConstraints) silently switches a gate off for that kind only")
	accessorsOwnField(c, xp+"apis/pkg/v1", "ProviderRevision", "ConfigurationRevision", "FunctionRevision")

	c.R.Rule("R15.10", "only a clean end of stream is not a read failure; a verification config counts whether or not it is complete", 2,
		"a download that breaks off with any other error (unexpected EOF included) would be cached as a complete stream; an ImageConfig that asks for verification but lacks the cosign block would count as 'no verification configured' and the package be installed unverified")
	if rd := c.P.Method("internal/xpkg", "teeReadCloser", "Read"); rd != nil {
		c.mech(rd)
		n, bad := 0, ""
		for _, x := range cfgx.Calls(rd, nil) {
			if cfgx.CalleeName(x) != "errors.Is" {
				continue
			}
			n++
			a := cfgx.CallArgs(x)
			ok := false
			if ld, isLd := a[1].(*ssa.UnOp); isLd {
				if g, isG := ld.X.(*ssa.Global); isG && g.Pkg.Pkg.Path() == "io" && g.Name() == "EOF" {
					ok = true
				}
			}
			if !ok {
				bad = c.pos(x.Pos())
			}
		}
		for _, b := range rd.Blocks {
			for _, in := range b.Instrs {
				if bo, isB := in.(*ssa.BinOp); isB && isEqOrNeq(bo) {
					for _, side := range []ssa.Value{bo.X, bo.Y} {
						if ld, isLd := side.(*ssa.UnOp); isLd {
							if g, isG := ld.X.(*ssa.Global); isG && g.Pkg.Pkg.Path() == "io" {
								n++
								if g.Name() != "EOF" {
									bad = c.pos(bo.Pos())
								}
							}
						}
					}
				}
			}
		}
		c.R.Check(n > 0 && bad == "", load.FuncName(rd)+": only io.EOF is a clean end", c.pos(rd.Pos()), "the read error is compared with io.EOF only", "the read error is also excused when it is something other than io.EOF (at "+bad+"): a stream that broke off is handed to the cache as complete")
	}
	if vf := c.P.Method("internal/xpkg", "ImageConfigStore", "ImageVerificationConfigFor"); vf != nil {
		c.mech(vf)
		n := 0
		for _, bm := range cfgx.Calls(vf, func(ci ssa.CallInstruction) bool {
			return strings.HasSuffix(cfgx.CalleeName(ci), "ImageConfigStore).bestMatch")
		}) {
			a := cfgx.CallArgs(bm)
			var pred *ssa.Function
			last := a[len(a)-1]
			if ct, ok := last.(*ssa.ChangeType); ok {
				last = ct.X
			}
			switch x := last.(type) {
			case *ssa.Function:
				pred = x
			case *ssa.MakeClosure:
				pred, _ = x.Fn.(*ssa.Function)
			}
			if pred == nil {
				continue
			}
			n++
			good := len(pred.Blocks) == 1
			if good {
				good = false
				for _, v := range cfgx.ReturnedValues(pred, 0) {
					if bo, ok := v.(*ssa.BinOp); ok && bo.Op == token.NEQ && cfgx.IsNilConst(bo.Y) {
						if _, p, _ := flow.AccessPathC(bo.X); strings.HasSuffix(p, "Verification") {
							good = true
						}
					}
				}
			}
			c.R.Check(good, load.FuncName(vf)+": every config that asks for verification counts", c.pos(bm.Pos()), "the match predicate is Spec.Verification != nil", "the match predicate asks for more than Spec.Verification != nil: an incomplete verification config is treated as none and verification is skipped")
		}
		if n == 0 {
			c.R.Unknown(load.FuncName(vf)+": predicate", c.pos(vf.Pos()), "the bestMatch predicate was not found")
		}
	}

	c.R.Rule("R15.5", "Verified is only set true for a reason", 2, "an unverified package would pass the revision controller's gate")
	if sr := c.method("internal/controller/pkg/signature", "Reconciler", "Reconcile"); sr != nil {
		val := cfgx.Calls(sr, func(ci ssa.CallInstruction) bool {
			return strings.HasSuffix(cfgx.CalleeName(ci), "signature.Validator).Validate")
		})
		var noCfg []cfgx.Edge
		for _, b := range sr.Blocks {
			for _, in := range b.Instrs {
				if bo, ok := in.(*ssa.BinOp); ok && isEqOrNeq(bo) && cfgx.IsNilConst(bo.Y) {
					if _, p, okp := flow.AccessPathC(bo.X); okp && p == "Cosign" {
						t, _ := eqEdges(bo)
						noCfg = append(noCfg, t...)
					}
					if ex, ok := bo.X.(*ssa.Extract); ok && ex.Index == 1 && hasSuffixCall(ex.Tuple, "ImageVerificationConfigFor") {
						t, _ := eqEdges(bo)
						noCfg = append(noCfg, t...)
					}
				}
			}
		}
		n := 0
		for _, x := range cfgx.Calls(sr, nil) {
			if !strings.HasSuffix(cfgx.CalleeName(x), ".SetConditions") {
				continue
			}
			for _, e := range sliceElems(cfgx.CallArgs(x)[0]) {
				st, ty, ctor := pkgCondStatus(e)
				if ty == "Verified" && st == "True" {
					n++
					gates := noCfg
					what := "no verification config for the image"
					if len(val) == 1 {
						gates = union(gates, okEdges(val[0]))
						what += " or ok(validator.Validate)"
					}
					c.requireCross(site(x)+" "+ctor, x, gates, what)
					if ctor == "VerificationSucceeded" && len(val) == 1 {
						c.requireCross(site(x)+" succeeded-needs-validate", x, okEdges(val[0]), "ok(validator.Validate)")
					}
				}
				if ty == "Verified" && st == "" {
					c.R.Unknown(site(x)+" verified-status", c.pos(x.Pos()), "cannot determine the constant Status of this condition")
				}
			}
		}
		// the skip edge `vc.Cosign == nil` is sound only because the store never hands out
		// a verification config without a cosign section: an incomplete config is an error there
		if st := c.method("internal/xpkg", "ImageConfigStore", "ImageVerificationConfigFor"); st != nil {
			var hasCosign []cfgx.Edge
			for _, b := range st.Blocks {
				for _, in := range b.Instrs {
					if bo, ok := in.(*ssa.BinOp); ok && (bo.Op == token.EQL || bo.Op == token.NEQ) && cfgx.IsNilConst(bo.Y) {
						if _, p, okp := flow.AccessPathC(bo.X); okp && strings.HasSuffix(p, "Verification.Cosign") {
							t, f := cfgx.CondEdges(bo)
							if bo.Op == token.EQL {
								hasCosign = append(hasCosign, f...)
							} else {
								hasCosign = append(hasCosign, t...)
							}
						}
					}
				}
			}
			nn := 0
			for _, b := range st.Blocks {
				if r, ok := b.Instrs[len(b.Instrs)-1].(*ssa.Return); ok && len(r.Results) == 3 {
					if v := cfgx.ReturnValue(r, 1); v != nil && !cfgx.IsNilConst(v) {
						nn++
						c.requireCross(load.FuncName(st)+": verification config returned only with a cosign section @b"+itoa(b.Index), r, hasCosign, "config.Spec.Verification.Cosign != nil")
					}
				}
			}
			if nn == 0 {
				c.R.Unknown(load.FuncName(st)+": returns", c.pos(st.Pos()), "no return of a non-nil verification config found")
			}
		} else {
			c.R.Unknown("ImageConfigStore.ImageVerificationConfigFor", "", "not found")
		}
		if n < 2 || len(val) != 1 {
			c.R.Unknown(load.FuncName(sr)+": Verified=True sites", c.pos(sr.Pos()), "expected VerificationSkipped and VerificationSucceeded sites and one Validate call")
		}
	}
}

// pkgCondStatus: constant Status and Type of a condition built by a constructor in apis/pkg/v1.
func pkgCondStatus(v ssa.Value) (status, typ, ctor string) {
	ci, ok := v.(*ssa.Call)
	if !ok {
		return "", "", ""
	}
	f := ci.Call.StaticCallee()
	if f == nil || f.Pkg == nil || !strings.HasSuffix(f.Pkg.Pkg.Path(), "apis/pkg/v1") {
		return "", "", ""
	}
	for _, b := range f.Blocks {
		for _, in := range b.Instrs {
			if st, ok := in.(*ssa.Store); ok {
				if isFieldSel(st.Addr, "common/v1.Condition", "Status") {
					status, _ = cfgx.ConstString(st.Val)
				}
				if isFieldSel(st.Addr, "common/v1.Condition", "Type") {
					typ, _ = cfgx.ConstString(st.Val)
				}
			}
		}
	}
	return status, typ, f.Name()
}

// pullNeverFlags: the comparison with corev1.PullNever and every boolean that
// can only be true when that comparison is (`never := p != nil && *p == PullNever`,
// `never := false; if cmp { never = true }`).
func pullNeverFlags(fn *ssa.Function) []ssa.Value {
	in := map[ssa.Value]bool{}
	var out []ssa.Value
	var cmpT []cfgx.Edge
	for _, b := range fn.Blocks {
		for _, ins := range b.Instrs {
			if bo, ok := ins.(*ssa.BinOp); ok && bo.Op == token.EQL {
				if s, ok := cfgx.ConstString(bo.Y); ok && s == "Never" {
					in[bo] = true
					out = append(out, bo)
					t, _ := cfgx.DirectCondEdges(bo)
					cmpT = append(cmpT, t...)
				}
			}
		}
	}
	for changed := true; changed; {
		changed = false
		for _, b := range fn.Blocks {
			for _, ins := range b.Instrs {
				phi, ok := ins.(*ssa.Phi)
				if !ok || in[phi] {
					continue
				}
				ls := leaves(phi)
				all := len(ls) > 0
				for _, l := range ls {
					if !in[l] {
						all = false
					}
				}
				if all {
					in[phi] = true
					out = append(out, phi)
					changed = true
				}
			}
		}
	}
	for _, phi := range cfgx.FlagPhis(fn, cmpT) {
		if !in[phi] {
			in[phi] = true
			out = append(out, phi)
		}
	}
	return out
}

func isErrType(t types.Type) bool {
	n, ok := t.(*types.Named)
	return ok && n.Obj().Pkg() == nil && n.Obj().Name() == "error"
}

// convertersComplete: every method of the generated converters (goverter output,
// types Generated…Converter) of the named packages assigns every field its
// source and target struct types share, with something that is not a zero constant.
func convertersComplete(c *Ctx, lost string, pkgs ...string) {
	for _, pp := range pkgs {
		pkg := c.P.SSAPkgs[xp+pp]
		if pkg == nil {
			continue
		}
		var names []string
		for n, m := range pkg.Members {
			if _, ok := m.(*ssa.Type); ok && strings.HasPrefix(n, "Generated") && strings.HasSuffix(n, "Converter") {
				names = append(names, n)
			}
		}
		sort.Strings(names)
		for _, n := range names {
			t := pkg.Members[n].(*ssa.Type).Type()
			nt, ok := t.(*types.Named)
			if !ok {
				continue
			}
			for i := 0; i < nt.NumMethods(); i++ {
				fn := c.P.SSA.FuncValue(nt.Method(i))
				if fn == nil || fn.Blocks == nil || len(fn.Params) != 2 || fn.Signature.Results().Len() != 1 {
					continue
				}
				deref := func(t types.Type) *types.Struct {
					if p, ok := t.Underlying().(*types.Pointer); ok {
						t = p.Elem()
					}
					st, _ := t.Underlying().(*types.Struct)
					return st
				}
				src, dst := deref(fn.Params[1].Type()), deref(fn.Signature.Results().At(0).Type())
				if src == nil || dst == nil {
					continue
				}
				written := map[string]bool{}
				for _, b := range fn.Blocks {
					for _, in := range b.Instrs {
						if st, ok := in.(*ssa.Store); ok {
							if _, whole := st.Addr.(*ssa.Alloc); whole && deref(st.Addr.Type()) == dst {
								if _, isConst := st.Val.(*ssa.Const); !isConst {
									for j := 0; j < dst.NumFields(); j++ {
										written[dst.Field(j).Name()] = true // the whole value comes from an extension function
									}
								}
							}
							if fa, ok := st.Addr.(*ssa.FieldAddr); ok && deref(fa.X.Type()) == dst {
								if _, isConst := st.Val.(*ssa.Const); isConst || cfgx.ZeroRead(st.Val) {
									continue // a zero value is not the source's field
								}
								written[dst.Field(fa.Field).Name()] = true
							}
						}
					}
				}
				var missing []string
				for j := 0; j < dst.NumFields(); j++ {
					f := dst.Field(j)
					for k := 0; k < src.NumFields(); k++ {
						if src.Field(k).Name() == f.Name() && !written[f.Name()] {
							missing = append(missing, f.Name())
						}
					}
				}
				c.R.Check(len(missing) == 0, load.FuncName(fn)+": carries shared fields", c.pos(fn.Pos()), "every field the source and the target type share is assigned", "the conversion does not assign "+strings.Join(missing, ", ")+": "+lost)
			}
		}
	}
}

// accessorAlias: getters whose field has another name, "<Getter>" -> field
var accessorAlias = map[string]string{
	"GetObjects":             "ObjectRefs",
	"GetSource":              "Package",
	"GetControllerConfigRef": "ControllerConfigReference",
	"GetRuntimeConfigRef":    "RuntimeConfigReference",
}

// accessorsOwnField: every niladic Get<F> method of the named types whose body
// just returns a field (chain) returns the field named F (or its tabled alias),
// and the named types agree with each other on that field path.
func accessorsOwnField(c *Ctx, pkgPath string, typeNames ...string) {
	pkg := c.P.SSAPkgs[pkgPath]
	if pkg == nil {
		c.R.Unknown(pkgPath, "", "package not loaded")
		return
	}
	paths := map[string]map[string]string{} // getter -> type -> field path
	for _, tn := range typeNames {
		mem, ok := pkg.Members[tn].(*ssa.Type)
		if !ok {
			continue
		}
		nt, ok := mem.Type().(*types.Named)
		if !ok {
			continue
		}
		for i := 0; i < nt.NumMethods(); i++ {
			m := nt.Method(i)
			if !strings.HasPrefix(m.Name(), "Get") {
				continue
			}
			fn := c.P.SSA.FuncValue(m)
			if fn == nil || fn.Blocks == nil || len(fn.Params) != 1 || fn.Signature.Results().Len() != 1 || len(fn.Blocks) != 1 {
				continue
			}
			rets := cfgx.ReturnedValues(fn, 0)
			if len(rets) != 1 {
				continue
			}
			// a pure field chain from the receiver
			var chain []string
			v := rets[0]
			pure := true
			for v != ssa.Value(fn.Params[0]) && pure {
				switch x := v.(type) {
				case *ssa.UnOp:
					if x.Op != token.MUL {
						pure = false
					}
					v = x.X
				case *ssa.FieldAddr:
					chain = append([]string{fieldName(x.X.Type(), x.Field)}, chain...)
					v = x.X
				case *ssa.Field:
					chain = append([]string{fieldName(x.X.Type(), x.Field)}, chain...)
					v = x.X
				default:
					pure = false
				}
			}
			if !pure || len(chain) == 0 {
				continue
			}
			want := strings.TrimPrefix(m.Name(), "Get")
			if a, ok := accessorAlias[m.Name()]; ok {
				want = a
			}
			got := chain[len(chain)-1]
			c.R.Check(got == want, load.FuncName(fn)+": own field", c.pos(fn.Pos()), "returns ."+strings.Join(chain, "."), m.Name()+" returns ."+strings.Join(chain, ".")+", not the field it is named after")
			if paths[m.Name()] == nil {
				paths[m.Name()] = map[string]string{}
			}
			paths[m.Name()][tn] = strings.Join(chain, ".")
		}
	}
}

// isWriterField: v is read from a field of type io.Writer (the writer a tee feeds), whatever the field is called.
func isWriterField(v ssa.Value) bool {
	if mi, ok := v.(*ssa.MakeInterface); ok {
		v = mi.X
	}
	for i := 0; i < 4; i++ {
		switch x := v.(type) {
		case *ssa.ChangeInterface:
			v = x.X
		case *ssa.Extract:
			v = x.Tuple
		case *ssa.TypeAssert:
			v = x.X
		case *ssa.MakeInterface:
			v = x.X
		}
	}
	ld, ok := v.(*ssa.UnOp)
	if !ok {
		return false
	}
	fa, ok := ld.X.(*ssa.FieldAddr)
	if !ok {
		return false
	}
	if fieldName(fa.X.Type(), fa.Field) == "" {
		return false
	}
	return types.NewMethodSet(ld.Type()).Lookup(nil, "Write") != nil // an io.Writer / io.WriteCloser field
}
