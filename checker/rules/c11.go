package rules

import (
	"go/token"
	"go/types"
	"strings"

	"golang.org/x/tools/go/ssa"

	"xpcheck/internal/cfgx"
	"xpcheck/internal/flow"
	"xpcheck/internal/load"
)

const pkgXCRD = "internal/xcrd"

func init() {
	register(&Property{
		ID:  "C11",
		Run: c11,
		Explanation: "Decides the construction order and field provenance of the CRDs derived from an XRD: (R11.1) in genCrdVersion and in ForCompositeResource{,Claim} every store of an author-derived property into the spec/status property maps happens before the machinery properties are written, and none is reachable afterwards, so machinery cannot be shadowed; " +
			"(R11.2) each field of the version and CRD literals comes from the stated source (Storage from Referenceable, Served/Name from the XRD version, status subresource a literal, schema root BaseProps(), scope a constant per function, group/conversion from the XRD, a single AsController owner reference to the XRD, one version per XRD version); " +
			"(R11.3) Required, XValidations, OneOf of spec and status and XPreserveUnknownFields of spec receive values derived from the parsed author schema, and the author-property loops have no filter; (R11.4) the claim CRD needs ok(validateClaimNames), which compares all four names and reaches success only past every comparison (or that name's own emptiness); ValidateUpdate compares group, plural and kind of both name sets; the webhook validates before any write and every write is a dry run; " +
			"(R11.5) both XRD controllers apply exactly the rendered CRD. R11.3 also requires that parseSchema is a pure decode of the author's schema. (R11.6) the author's metadata.name maxLength is compared with the default limit only (an explicit 0 is honoured).",
		NotDecided:  []string{"schema fidelity for arbitrary OpenAPI documents", "that exactly one version is referenceable (XRD validation concern)", "API-server defaulting and structural-schema validation"},
		Assumptions: []string{"map assignment order decides which value a key ends up with"},
	})
}

func c11(c *Ctx) {
	gen := c.fn(pkgXCRD, "genCrdVersion")
	forXR := c.fn(pkgXCRD, "ForCompositeResource")
	forCM := c.fn(pkgXCRD, "ForCompositeResourceClaim")

	authorDerived := func(fn *ssa.Function) func(ssa.Value) bool {
		ps := calls(fn, xp+pkgXCRD+".parseSchema")
		return func(v ssa.Value) bool {
			if len(ps) != 1 {
				return false
			}
			s := cfgx.TupleResult(ps[0], 0)
			return flow.Strict.Any(v, func(x ssa.Value) bool { return x == s })
		}
	}

	c.R.Rule("R11.1", "machinery last: author properties are stored before, and never after, the machinery properties", 6,
		"an XRD property named like a machinery field (conditions, resourceRefs, ...) would replace Crossplane's schema for it")
	if gen != nil {
		isAuthor := authorDerived(gen)
		var authorSt, machSt []ssa.Instruction
		statusProps := xp + pkgXCRD + ".CompositeResourceStatusProps"
		for _, b := range gen.Blocks {
			for _, in := range b.Instrs {
				switch x := in.(type) {
				case *ssa.MapUpdate:
					if !strings.HasSuffix(x.Map.Type().String(), "JSONSchemaProps") {
						continue
					}
					if _, constKey := cfgx.ConstString(x.Key); constKey {
						continue // re-assembling the root schema (Properties["spec"|"status"|"metadata"]), not a property merge
					}
					if flow.Default.AnyCall(x.Value, statusProps) && !isAuthor(x.Value) {
						machSt = append(machSt, x)
					} else if isAuthor(x.Value) {
						authorSt = append(authorSt, x)
					}
				case *ssa.Store:
					if isFieldSel(x.Addr, "v1.JSONSchemaProps", "Properties") {
						if flow.Default.AnyCall(x.Val, statusProps) {
							machSt = append(machSt, x)
						} else if isAuthor(x.Val) {
							authorSt = append(authorSt, x)
						}
					}
				}
			}
		}
		if len(machSt) == 0 || len(authorSt) < 2 {
			c.R.Unknown(load.FuncName(gen)+": property stores", c.pos(gen.Pos()), "expected author property stores (spec, status) and the status machinery store")
		}
		target := func(in ssa.Instruction) ssa.Value {
			switch x := in.(type) {
			case *ssa.MapUpdate:
				return flow.Root(x.Map)
			case *ssa.Store:
				return flow.Root(x.Addr)
			}
			return nil
		}
		for i, a := range authorSt {
			for _, m := range machSt {
				if target(a) != target(m) {
					continue // different property maps (spec vs status): their relative order is irrelevant
				}
				after := cfgx.InstrReaches(m, a, nil) && !(a.Block() == m.Block() && cfgx.Before(a, m))
				if l := cfgx.LoopOf(a.Block()); l != nil && l[m.Block()] {
					after = true
				}
				c.R.Check(!after, load.FuncName(gen)+": author store #"+itoa(i)+" not after machinery", c.pos(a.Pos()), "no author-derived property store is reachable after the machinery properties were written", "an author-derived property is stored after the machinery properties: it overwrites (shadows) them")
			}
		}
		for _, m := range machSt {
			mu, isMU := m.(*ssa.MapUpdate)
			// status: at least one author store into the same map precedes
			pre := false
			for _, a := range authorSt {
				if target(a) == target(m) && cfgx.InstrReaches(a, m, nil) {
					pre = true
				}
			}
			c.R.Check(pre && isMU, load.FuncName(gen)+": status machinery written last", c.pos(m.Pos()), "machinery status properties are merged over the author's, key by key", "the machinery status properties are not merged key by key after the author's")
			if isMU {
				if l := cfgx.LoopOf(mu.Block()); l != nil {
					by, _ := cfgx.LoopBypass(l, map[*ssa.BasicBlock]bool{mu.Block(): true}, nil, nil)
					c.R.Check(!by, load.FuncName(gen)+": every status machinery key", c.pos(mu.Pos()), "no machinery key is skipped", "a machinery status property can be skipped")
				}
			}
		}
	}
	for _, it := range []struct {
		fn    *ssa.Function
		props string
	}{{forXR, "CompositeResourceSpecProps"}, {forCM, "CompositeResourceClaimSpecProps"}} {
		fn := it.fn
		if fn == nil {
			continue
		}
		g := calls(fn, xp+pkgXCRD+".genCrdVersion")
		if !c.expect("genCrdVersion", len(g), 1, fn) {
			continue
		}
		n := 0
		for _, b := range fn.Blocks {
			for _, in := range b.Instrs {
				mu, ok := in.(*ssa.MapUpdate)
				if !ok || !strings.HasSuffix(mu.Map.Type().String(), "JSONSchemaProps") {
					continue
				}
				// the props map itself is also updated (defaults); the target map must derive from the generated version
				if !flow.Default.Any(mu.Map, func(v ssa.Value) bool { return v == cfgx.TupleResult(g[0], 0) }) {
					continue
				}
				n++
				c.R.Check(flow.Default.AnyCall(mu.Value, xp+pkgXCRD+"."+it.props), load.FuncName(fn)+": spec machinery store", c.pos(mu.Pos()), "the value written over the generated spec properties comes from "+it.props+"()", "a property written after generation does not come from "+it.props+"()")
				c.requireCross(load.FuncName(fn)+": spec machinery after author merge", mu, okEdges(g[0]), "ok(genCrdVersion) (author properties already merged)")
				if l := cfgx.LoopOf(mu.Block()); l != nil {
					inner := l
					by, _ := cfgx.LoopBypass(inner, map[*ssa.BasicBlock]bool{mu.Block(): true}, nil, nil)
					c.R.Check(!by, load.FuncName(fn)+": every spec machinery key", c.pos(mu.Pos()), "no machinery key is skipped", "a machinery spec property can be skipped")
				}
				// written into Properties["spec"]
				c.R.Check(lookupOf(mu.Map, "spec"), load.FuncName(fn)+": into spec", c.pos(mu.Pos()), "written into Properties[\"spec\"].Properties", "the machinery properties are not written into the spec properties")
			}
		}
		if n == 0 {
			c.R.Bad(load.FuncName(fn)+": spec machinery store", c.pos(fn.Pos()), "the machinery spec properties are never written over the generated version")
		}
	}

	c.R.Rule("R11.2", "field provenance of the version and CRD literals", 14,
		"wrong storage version, scope, group or owner of the generated CRD")
	if gen != nil {
		vr := gen.Params[0]
		for _, f := range []struct{ field, src string }{{"Name", "Name"}, {"Served", "Served"}, {"Storage", "Referenceable"}} {
			found := false
			for _, b := range gen.Blocks {
				for _, in := range b.Instrs {
					if st, ok := in.(*ssa.Store); ok && isFieldSel(st.Addr, "v1.CustomResourceDefinitionVersion", f.field) {
						found = true
						r, p, ok := flow.AccessPathC(st.Val)
						good := ok && p == f.src && (r == ssa.Value(vr) || flow.Root(r) == spillOf(vr) || flow.Root(r) == ssa.Value(vr))
						c.R.Check(good, load.FuncName(gen)+": "+f.field, c.pos(st.Pos()), f.field+" = vr."+f.src, f.field+" of the CRD version is not vr."+f.src+" ("+p+")")
					}
				}
			}
			if !found {
				c.R.Bad(load.FuncName(gen)+": "+f.field, c.pos(gen.Pos()), f.field+" is never set")
			}
		}
		sub, schema := false, false
		for _, b := range gen.Blocks {
			for _, in := range b.Instrs {
				if st, ok := in.(*ssa.Store); ok {
					if isFieldSel(st.Addr, "v1.CustomResourceSubresources", "Status") {
						_, isAlloc := st.Val.(*ssa.Alloc)
						sub = isAlloc
					}
					if isFieldSel(st.Addr, "v1.CustomResourceValidation", "OpenAPIV3Schema") {
						schema = flow.IsCallTo(st.Val, xp+pkgXCRD+".BaseProps")
					}
				}
			}
		}
		c.R.Check(sub, load.FuncName(gen)+": status subresource", c.pos(gen.Pos()), "Subresources.Status is always a non-nil literal", "the status subresource is not unconditionally enabled")
		c.R.Check(schema, load.FuncName(gen)+": schema root", c.pos(gen.Pos()), "the schema root is BaseProps()", "the schema root is not BaseProps()")
	}
	for _, it := range []struct {
		fn    *ssa.Function
		scope string
	}{{forXR, "Cluster"}, {forCM, "Namespaced"}} {
		fn := it.fn
		if fn == nil {
			continue
		}
		xrd := ssa.Value(fn.Params[0])
		chk := func(field, wantPath string) {
			found := false
			for _, b := range fn.Blocks {
				for _, in := range b.Instrs {
					if st, ok := in.(*ssa.Store); ok && isFieldSel(st.Addr, "v1.CustomResourceDefinitionSpec", field) {
						found = true
						r, p, ok := flow.AccessPathC(st.Val)
						c.R.Check(ok && p == wantPath && r == xrd, load.FuncName(fn)+": "+field, c.pos(st.Pos()), field+" = xrd."+wantPath, field+" of the CRD is not xrd."+wantPath)
					}
				}
			}
			if !found {
				c.R.Bad(load.FuncName(fn)+": "+field, c.pos(fn.Pos()), field+" is never set")
			}
		}
		chk("Group", "Spec.Group")
		chk("Conversion", "Spec.Conversion")
		scopeOK := false
		for _, b := range fn.Blocks {
			for _, in := range b.Instrs {
				if st, ok := in.(*ssa.Store); ok && isFieldSel(st.Addr, "v1.CustomResourceDefinitionSpec", "Scope") {
					s, isC := cfgx.ConstString(st.Val)
					scopeOK = isC && s == it.scope
				}
			}
		}
		c.R.Check(scopeOK, load.FuncName(fn)+": Scope", c.pos(fn.Pos()), "Scope is the constant "+it.scope, "the CRD scope is not the constant "+it.scope)
		// owner reference
		okOwner := false
		for _, x := range cfgx.Calls(fn, nil) {
			if strings.HasSuffix(cfgx.CalleeName(x), ".SetOwnerReferences") {
				el := sliceElems(cfgx.CallArgs(x)[0])
				if len(el) == 1 && flow.IsCallTo(el[0], xprt+"meta.AsController") && flow.Default.Any(el[0], func(v ssa.Value) bool { return v == xrd }) {
					okOwner = true
				}
			}
		}
		c.R.Check(okOwner, load.FuncName(fn)+": owner", c.pos(fn.Pos()), "exactly one owner reference: AsController(reference to the XRD)", "the CRD's owner references are not exactly AsController(ref to the XRD)")
		// ... and nothing executed afterwards replaces the CRD's object metadata or owner references
		for _, so := range cfgx.Calls(fn, func(ci ssa.CallInstruction) bool {
			return strings.HasSuffix(cfgx.CalleeName(ci), ".SetOwnerReferences")
		}) {
			clob := ""
			for _, b := range fn.Blocks {
				for _, in := range b.Instrs {
					if in == ssa.Instruction(so) || !cfgx.InstrReaches(so, in, nil) {
						continue
					}
					if why := clobbersObjectMeta(in, 3); why != "" {
						clob = why + " at " + c.pos(in.Pos())
					}
				}
			}
			c.R.Check(clob == "", site(so)+" owner-kept", c.pos(so.Pos()), "nothing after SetOwnerReferences replaces the object metadata", "after the controller reference is set, "+clob+": the CRD would lose its controller reference to the XRD")
		}
		// versions: make(len(xrd.Spec.Versions)) and every index stored
		lenOK, storeAll := false, false
		for _, b := range fn.Blocks {
			for _, in := range b.Instrs {
				if ms, ok := in.(*ssa.MakeSlice); ok && strings.HasSuffix(ms.Type().String(), "CustomResourceDefinitionVersion") {
					if of, ok := lenOfValue(ms.Len); ok {
						_, p, _ := flow.AccessPathC(of)
						lenOK = p == "Spec.Versions"
					}
				}
				if st, ok := in.(*ssa.Store); ok {
					if ia, ok := st.Addr.(*ssa.IndexAddr); ok && strings.HasSuffix(ia.X.Type().String(), "CustomResourceDefinitionVersion") {
						if l := cfgx.LoopOf(st.Block()); l != nil {
							// every iteration stores or returns an error
							by, _ := cfgx.LoopBypass(l, map[*ssa.BasicBlock]bool{st.Block(): true}, nil, nil)
							storeAll = !by
							for _, r := range cfgx.ReturnsFromLoop(l) {
								if nonNilError(r) == "nil" {
									storeAll = false
								}
							}
						}
					}
				}
			}
		}
		c.R.Check(lenOK && storeAll, load.FuncName(fn)+": versions", c.pos(fn.Pos()), "one generated version per XRD version, every index stored", "the CRD does not get exactly one generated version per XRD version")
	}

	c.R.Rule("R11.6", "the author's limit on metadata.name is honoured whenever it is set and stricter", 1,
		"a limit the author set explicitly (0 included) is replaced by the default 63: the CRD admits names the XRD forbids")
	if gen != nil {
		isAuthorLimit := func(v ssa.Value) bool {
			return flow.Default.Any(v, func(x ssa.Value) bool {
				switch y := x.(type) {
				case *ssa.FieldAddr:
					return fieldName(y.X.Type(), y.Field) == "MaxLength"
				case *ssa.Field:
					return fieldName(y.X.Type(), y.Field) == "MaxLength"
				}
				return false
			})
		}
		n, bad := 0, ""
		for _, b := range gen.Blocks {
			for _, in := range b.Instrs {
				bo, ok := in.(*ssa.BinOp)
				if !ok {
					continue
				}
				switch bo.Op {
				case token.LSS, token.LEQ, token.GTR, token.GEQ, token.EQL, token.NEQ:
				default:
					continue
				}
				for _, pr := range [][2]ssa.Value{{bo.X, bo.Y}, {bo.Y, bo.X}} {
					if _, isPtr := pr[0].Type().Underlying().(*types.Pointer); isPtr {
						continue // the nil test of the optional field
					}
					if !isAuthorLimit(pr[0]) {
						continue
					}
					n++
					if k, isC := cfgx.ConstInt(pr[1]); isC && k <= 0 {
						bad = c.pos(bo.Pos())
					}
				}
			}
		}
		c.R.Check(n > 0 && bad == "", load.FuncName(gen)+": author's name limit", c.pos(gen.Pos()), "the author's maxLength is compared with the default limit only", "the author's maxLength is also compared with a constant ≤ 0 (at "+bad+"): an explicit limit of 0 is treated as unset")
	}

	c.R.Rule("R11.3", "author constraints are carried", 9, "required lists, CEL rules, oneOf or preserve-unknown-fields of the XRD would be dropped from the CRD")
	// … from the schema as the author wrote it: parseSchema decodes and does not edit
	if ps := c.fn(pkgXCRD, "parseSchema"); ps != nil {
		var edit ssa.Instruction
		for _, b := range ps.Blocks {
			for _, in := range b.Instrs {
				switch x := in.(type) {
				case *ssa.MapUpdate:
					edit = x
				case *ssa.Store:
					switch x.Addr.(type) {
					case *ssa.FieldAddr, *ssa.IndexAddr:
						if _, isAlloc := flow.Root(x.Addr).(*ssa.Alloc); isAlloc {
							if cfgx.ZeroRead(x.Val) {
								continue
							}
							if k, isC := x.Val.(*ssa.Const); isC && k.Value == nil {
								continue
							}
							edit = x
						}
					}
				}
			}
		}
		p := ps.Pos()
		if edit != nil {
			p = edit.Pos()
		}
		c.R.Check(edit == nil, load.FuncName(ps)+": pure decode", c.pos(p), "the author's schema is unmarshalled and handed on unchanged", "parseSchema edits the decoded schema: what the CRD generators carry over is no longer what the author wrote (required lists, properties)")
	}
	if gen != nil {
		isAuthor := authorDerived(gen)
		want := map[string]int{"Required": 2, "XValidations": 2, "OneOf": 2, "XPreserveUnknownFields": 1}
		got := map[string]int{}
		for _, b := range gen.Blocks {
			for _, in := range b.Instrs {
				st, ok := in.(*ssa.Store)
				if !ok {
					continue
				}
				for f := range want {
					if isFieldSel(st.Addr, "v1.JSONSchemaProps", f) {
						w := &flow.Walker{Opts: flow.Opts{ThroughCall: func(ci ssa.CallInstruction) bool { return cfgx.CalleeName(ci) == "builtin.append" }}}
						fromAuthor := false
						for x := range w.Back(st.Val) {
							if _, p, ok := flow.AccessPathC(x); ok && strings.HasSuffix(p, f) && isAuthor(x) {
								fromAuthor = true
							}
						}
						if fromAuthor {
							got[f]++
						}
						c.R.Check(fromAuthor, load.FuncName(gen)+": "+f+" #"+itoa(got[f]), c.pos(st.Pos()), "carries the author's "+f, "a store to "+f+" does not carry the author's "+f)
					}
				}
			}
		}
		for f, n := range want {
			c.R.Check(got[f] >= n, load.FuncName(gen)+": "+f+" carried for spec and status", c.pos(gen.Pos()), itoa(got[f])+" store(s) carry the author's "+f, "the author's "+f+" is carried "+itoa(got[f])+" time(s), expected "+itoa(n)+" (spec and status)")
		}
		// author property loops have no filter
		n := 0
		for _, b := range gen.Blocks {
			for _, in := range b.Instrs {
				if mu, ok := in.(*ssa.MapUpdate); ok && strings.HasSuffix(mu.Map.Type().String(), "JSONSchemaProps") && isAuthor(mu.Value) {
					if l := cfgx.LoopOf(mu.Block()); l != nil {
						n++
						by, _ := cfgx.LoopBypass(l, map[*ssa.BasicBlock]bool{mu.Block(): true}, nil, nil)
						okx, _ := cfgx.OnlyHeaderExits(l)
						c.R.Check(!by && okx && sameRange(mu.Key, mu.Value), load.FuncName(gen)+": author property loop #"+itoa(n), c.pos(mu.Pos()), "every author property is copied under its own name", "an author property can be skipped or stored under another name")
					}
				}
			}
		}
		if n < 2 {
			c.R.Unknown(load.FuncName(gen)+": author loops", c.pos(gen.Pos()), "expected the spec and status author property loops")
		}
	}

	c.R.Rule("R11.4", "validation gates: claim names, immutability, webhook dry runs", 14, "a claim CRD colliding with the composite's names, or a renamed group/kind, would be accepted")
	if forCM != nil {
		v := calls(forCM, xp+pkgXCRD+".validateClaimNames")
		if c.expect("validateClaimNames", len(v), 1, forCM) {
			for _, b := range forCM.Blocks {
				if r, ok := b.Instrs[len(b.Instrs)-1].(*ssa.Return); ok && nonNilError(r) == "nil" {
					c.requireCross(load.FuncName(forCM)+": success after name validation", r, okEdges(v[0]), "ok(validateClaimNames)")
				}
			}
		}
	}
	if vc := c.fn(pkgXCRD, "validateClaimNames"); vc != nil {
		fields := []string{"Kind", "Plural", "Singular", "ListKind"}
		var success []*ssa.Return
		for _, b := range vc.Blocks {
			if r, ok := b.Instrs[len(b.Instrs)-1].(*ssa.Return); ok && nonNilError(r) == "nil" {
				success = append(success, r)
			}
		}
		for _, f := range fields {
			var differ, conflict, empty []cfgx.Edge
			for _, b := range vc.Blocks {
				for _, in := range b.Instrs {
					bo, ok := in.(*ssa.BinOp)
					if !ok || (bo.Op != token.EQL && bo.Op != token.NEQ) {
						continue
					}
					_, px, _ := flow.AccessPathC(bo.X)
					_, py, _ := flow.AccessPathC(bo.Y)
					t, fe := cfgx.CondEdges(bo)
					if bo.Op == token.NEQ {
						t, fe = fe, t
					}
					if (px == "Spec.ClaimNames."+f && py == "Spec.Names."+f) || (py == "Spec.ClaimNames."+f && px == "Spec.Names."+f) {
						conflict, differ = append(conflict, t...), append(differ, fe...)
					}
					if s, isC := cfgx.ConstString(bo.Y); isC && s == "" && px == "Spec.ClaimNames."+f {
						empty = append(empty, t...)
					}
				}
			}
			if len(conflict) == 0 {
				c.R.Bad(load.FuncName(vc)+": compares "+f, c.pos(vc.Pos()), "claim "+f+" is never compared with the composite's "+f)
				continue
			}
			rets := cfgx.ReturnsReachable(conflict, nil)
			good := len(rets) > 0
			for _, r := range rets {
				if nonNilError(r) == "nil" {
					good = false
				}
			}
			c.R.Check(good, load.FuncName(vc)+": "+f+" conflict rejected", c.pos(vc.Pos()), "equal "+f+" returns an error", "an equal "+f+" does not lead to an error")
			// "non-empty and equal" known false: one of the two tests failed, or a
			// boolean and-combining exactly them (a switch case expression) is false
			isClaimF := func(v ssa.Value) bool { _, p, _ := flow.AccessPathC(v); return p == "Spec.ClaimNames."+f }
			isXRF := func(v ssa.Value) bool { _, p, _ := flow.AccessPathC(v); return p == "Spec.Names."+f }
			conj := findCmps(vc, true, func(x, y ssa.Value) bool { return isClaimF(x) && isXRF(y) })
			conj = append(conj, findCmps(vc, false, func(x, y ssa.Value) bool {
				s, isC := cfgx.ConstString(y)
				return isC && s == "" && isClaimF(x)
			})...)
			for i, r := range success {
				gates := union(union(differ, empty), conjFalseEdges(vc, conj))
				ok, w := cfgx.MustCross(r, gates, c.posf())
				c.R.Check(ok, load.FuncName(vc)+": success #"+itoa(i)+" past "+f, c.pos(r.Pos()), "success is reached only past the "+f+" comparison (or its own emptiness)", "validateClaimNames can succeed without having compared "+f, w...)
			}
		}
	}
	if vu := c.method("apis/apiextensions/v1", "CompositeResourceDefinition", "ValidateUpdate"); vu != nil {
		for _, f := range []string{"Spec.Group", "Spec.Names.Plural", "Spec.Names.Kind", "Spec.ClaimNames.Plural", "Spec.ClaimNames.Kind"} {
			found := false
			for _, b := range vu.Blocks {
				for _, in := range b.Instrs {
					bo, ok := in.(*ssa.BinOp)
					if !ok || (bo.Op != token.EQL && bo.Op != token.NEQ) {
						continue
					}
					rx, px, _ := flow.AccessPathC(cfgx.ResolveAt(bo.X, b))
					ry, py, _ := flow.AccessPathC(cfgx.ResolveAt(bo.Y, b))
					if px == f && py == f && flow.Root(rx) != flow.Root(ry) {
						t, fe := cfgx.CondEdges(bo)
						if bo.Op == token.EQL {
							t = fe
						}
						// the differ edge appends an error
						app := false
						for _, ap := range calls(vu, "builtin.append") {
							if r, _ := cfgx.ReachableFromEdges(t, ap, nil, nil); r && strings.HasSuffix(ap.Common().Args[0].Type().String(), "field.ErrorList") {
								app = true
							}
						}
						found = app
					}
				}
			}
			c.R.Check(found, load.FuncName(vu)+": "+f+" immutable", c.pos(vu.Pos()), "a changed "+f+" adds an error", "a change of "+f+" is not rejected")
		}
		// the accumulated errors are returned
		for _, b := range vu.Blocks {
			if r, ok := b.Instrs[len(b.Instrs)-1].(*ssa.Return); ok {
				c.R.Check(flow.Default.Any(cfgx.ReturnValue(r, 1), func(v ssa.Value) bool {
					ci, ok := v.(*ssa.Call)
					return ok && cfgx.CalleeName(ci) == "builtin.append"
				}), load.FuncName(vu)+": returns accumulated errors", c.pos(r.Pos()), "the error list returned contains the immutability errors", "the immutability errors are not part of the returned list")
			}
		}
	}
	wh := "internal/validation/apiextensions/v1/xrd"
	for _, it := range []struct{ m, val string }{{"ValidateCreate", ".Validate"}, {"ValidateUpdate", ".ValidateUpdate"}} {
		fn := c.method(wh, "validator", it.m)
		if fn == nil {
			continue
		}
		var v ssa.CallInstruction
		for _, x := range cfgx.Calls(fn, nil) {
			if strings.HasSuffix(cfgx.CalleeName(x), "v1.CompositeResourceDefinition)"+it.val) {
				v = x
			}
		}
		if v == nil {
			c.R.Bad(load.FuncName(fn)+": validates", c.pos(fn.Pos()), "the XRD's own "+it.val[1:]+" is not called")
			continue
		}
		// success edge: validationErr == nil
		var okE []cfgx.Edge
		errs := cfgx.TupleResult(v, 1)
		if errs != nil && errs.Referrers() != nil {
			for _, r := range *errs.Referrers() {
				if bo, ok := r.(*ssa.BinOp); ok && (cfgx.IsNilConst(bo.X) || cfgx.IsNilConst(bo.Y)) {
					t, f := cfgx.CondEdges(bo)
					if bo.Op == token.NEQ {
						okE = append(okE, f...)
					} else {
						okE = append(okE, t...)
					}
				}
			}
		}
		n := 0
		for _, x := range cfgx.Calls(fn, nil) {
			nm := cfgx.CalleeName(x)
			if nm == clientCreate || nm == clientUpdate || strings.HasSuffix(nm, "validator).dryRunUpdateOrCreateIfNotFound") || nm == xp+wh+".getAllCRDsForXRD" {
				n++
				c.requireCross(site(x)+" after-validation", x, okE, "no validation errors")
			}
		}
		if n == 0 {
			c.R.Unknown(load.FuncName(fn)+": writes", c.pos(fn.Pos()), "no dry-run write found")
		}
		// no admission without validation: every way to admit the object (nil
		// error) lies beyond the success edge of the XRD's own validation
		ne := 0
		for _, er := range cfgx.ErrorReturnsFrom(entryEdges(fn), nil) {
			if er.NonNil || classifyErr(er.Val) == "nonnil" || hasSuffixCall(underIface(er.Val), "field.ErrorList).ToAggregate") {
				continue // rejects: the aggregate of the (non-empty) validation errors
			}
			ne++
			c.requireCross(load.FuncName(fn)+": admits only validated objects #"+itoa(ne), er.At, okE, "no validation errors from "+it.val[1:])
		}
		if ne == 0 {
			c.R.Unknown(load.FuncName(fn)+": admitting returns", c.pos(fn.Pos()), "no return that admits the object found")
		}
	}
	nW := 0
	for _, f := range c.P.PkgFunctions(wh) {
		for _, w := range directWrites(f) {
			nW++
			c.R.Check(hasDryRun(w), site(w)+" dry-run", c.pos(w.Pos()), "carries client.DryRunAll", "the XRD webhook performs a real write")
		}
	}
	if nW < 3 {
		c.R.Unknown(wh+": writes", "", "expected three dry-run writes in the XRD webhook")
	}

	c.R.Rule("R11.5", "both XRD controllers apply exactly the rendered CRD", 2, "the CRD applied would differ from the one derived (and validated) from the XRD")
	for _, p := range []string{"internal/controller/apiextensions/definition", "internal/controller/apiextensions/offered"} {
		fn := c.method(p, "Reconciler", "Reconcile")
		if fn == nil {
			continue
		}
		ap := callsWithArg(fn, 1, tCRD, applicatorApply)
		var ren ssa.CallInstruction
		for _, x := range cfgx.Calls(fn, nil) {
			if strings.HasSuffix(cfgx.CalleeName(x), "CRDRenderer).Render") {
				ren = x
			}
		}
		if len(ap) != 1 || ren == nil {
			c.R.Unknown(load.FuncName(fn)+": render/apply", c.pos(fn.Pos()), "Render or Apply(crd) not found")
			continue
		}
		c.R.Check(underIface(cfgx.CallArgs(ap[0])[1]) == cfgx.TupleResult(ren, 0), site(ap[0])+" rendered", c.pos(ap[0].Pos()), "applies the CRD returned by Render(d)", "the CRD applied is not the one rendered from the XRD")
		c.requireCross(site(ap[0])+" after-render", ap[0], okEdges(ren), "ok(Render)")
	}
	// the renderers wired in Setup are xcrd.ForCompositeResource / ForCompositeResourceClaim
	for _, it := range []struct{ pkg, want string }{{"internal/controller/apiextensions/definition", "ForCompositeResource"}, {"internal/controller/apiextensions/offered", "ForCompositeResourceClaim"}} {
		found := false
		for _, f := range c.P.PkgFunctions(it.pkg) {
			for _, b := range f.Blocks {
				for _, in := range b.Instrs {
					for _, op := range in.Operands(nil) {
						if op == nil || *op == nil {
							continue
						}
						if fv, ok := (*op).(*ssa.Function); ok && fv.Pkg != nil && fv.Pkg.Pkg.Path() == xp+pkgXCRD && fv.Name() == it.want {
							found = true
						}
						if ct, ok := (*op).(*ssa.ChangeType); ok {
							if fv, ok := ct.X.(*ssa.Function); ok && fv.Name() == it.want {
								found = true
							}
						}
					}
				}
			}
		}
		c.R.Check(found, it.pkg+": renderer is xcrd."+it.want, "", "the reconciler is wired with xcrd."+it.want, "the reconciler's CRD renderer is not xcrd."+it.want)
	}
}

// clobbersObjectMeta reports whether instruction in (or a same-module function
// it calls statically, to the given depth) stores a whole ObjectMeta or the
// OwnerReferences field, or calls SetOwnerReferences.
func clobbersObjectMeta(in ssa.Instruction, depth int) string {
	switch x := in.(type) {
	case *ssa.Store:
		if fa, ok := x.Addr.(*ssa.FieldAddr); ok {
			st := fa.X.Type().Underlying().(*types.Pointer).Elem().Underlying().(*types.Struct)
			switch st.Field(fa.Field).Name() {
			case "ObjectMeta":
				return "the whole ObjectMeta is overwritten"
			case "OwnerReferences":
				return "OwnerReferences is overwritten"
			}
		}
	case ssa.CallInstruction:
		n := cfgx.CalleeName(x)
		if strings.HasSuffix(n, ".SetOwnerReferences") {
			return "SetOwnerReferences is called again"
		}
		if depth > 0 {
			if f := x.Common().StaticCallee(); f != nil && f.Pkg != nil && strings.HasPrefix(f.Pkg.Pkg.Path(), load.Module) {
				for _, b := range f.Blocks {
					for _, i2 := range b.Instrs {
						if why := clobbersObjectMeta(i2, depth-1); why != "" {
							return f.Name() + ": " + why
						}
					}
				}
			}
		}
	}
	return ""
}
