package rules

import (
	"go/ast"
	"go/token"
	"go/types"
	"strings"

	"golang.org/x/tools/go/ssa"

	"xpcheck/internal/cfgx"
	"xpcheck/internal/flow"
	"xpcheck/internal/load"
)

const (
	tCRD        = "*k8s.io/apiextensions-apiserver/pkg/apis/apiextensions/v1.CustomResourceDefinition"
	tXRUnstr    = "*" + xprt + "resource/unstructured/composite.Unstructured"
	tClaimUnstr = "*" + xprt + "resource/unstructured/claim.Unstructured"
	tComposedU  = "*" + xprt + "resource/unstructured/composed.Unstructured"
	tKUnstr     = "*k8s.io/apimachinery/pkg/apis/meta/v1/unstructured.Unstructured"
	tKUnstrList = "*k8s.io/apimachinery/pkg/apis/meta/v1/unstructured.UnstructuredList"

	engineStop    = "(" + xp + "internal/controller/apiextensions/definition.ControllerEngine).Stop"
	engineStopOff = "(" + xp + "internal/controller/apiextensions/offered.ControllerEngine).Stop"
)

func init() {
	register(&Property{
		ID:  "C08",
		Run: c08,
		Explanation: "Decides the ordering discipline of teardown inside each reconcile, on every CFG path of the real functions: " +
			"(R8.1) claim finalizer removal is gated by the XR never having been created or by an acknowledged XR delete, and is unreachable on foreground-consistent paths; " +
			"(R8.2/R8.3, sibling rules for definition and offered) the CRD delete needs the CRD to be ours, an empty instance list and an acknowledged engine.Stop; every Stop needs 'not ours' or 'no instances'; the XRD finalizer is dropped only when the CRD is not ours and after Stop; " +
			"(R8.4) a package revision leaves the lock before it is finalized, deactivation removes it from the lock before releasing objects; " +
			"(R8.5) a composed Usage is never finalized on the edge where its using resource was read successfully; " +
			"(R8.6) ControllerEngine.Stop returns nil for a running controller only after stopping every source, cancelling and forgetting the controller, and StoppableSource.Stop forgets its registration only after RemoveEventHandler succeeded. (R8.7/R8.8) the XR is written only after a successful Update of the claim that carries its reference (the deletion branch finds the XR through that reference). (R8.9) the definition and the offered controller hold distinct finalizers on the XRD.",
		NotDecided: []string{
			"joint ordering across controllers and Kubernetes garbage collection",
			"third-party finalizer removal",
			"fault sequences over several reconciles",
			"that the API server honours foreground propagation",
		},
		Assumptions: []string{"each API call is atomic; an acknowledged delete eventually removes the object", "interface calls on r.client/r.engine/r.claim reach the production implementations wired in Setup"},
	})
}

func fullType(v ssa.Value) string { return underIface(v).Type().String() }

// callsWithArg returns calls to names whose i-th non-receiver argument has the given full type.
func callsWithArg(fn *ssa.Function, i int, typ string, names ...string) []ssa.CallInstruction {
	var out []ssa.CallInstruction
	for _, c := range calls(fn, names...) {
		a := cfgx.CallArgs(c)
		if i < len(a) && fullType(a[i]) == typ {
			out = append(out, c)
		}
	}
	return out
}

// boolCalls returns the true and false edges of all calls to name in fn whose
// i-th argument satisfies argOK.
func boolCallEdges(fn *ssa.Function, name string, argOK func(args []ssa.Value) bool) (tr, fa []cfgx.Edge, n int) {
	for _, c := range calls(fn, name) {
		if argOK != nil && !argOK(cfgx.CallArgs(c)) {
			continue
		}
		t, f := cfgx.CallCondEdges(c)
		tr = append(tr, t...)
		fa = append(fa, f...)
		n++
	}
	return
}

func argHasType(i int, typ string) func([]ssa.Value) bool {
	return func(a []ssa.Value) bool { return i < len(a) && fullType(a[i]) == typ }
}

func union(es ...[]cfgx.Edge) []cfgx.Edge {
	var out []cfgx.Edge
	for _, e := range es {
		out = append(out, e...)
	}
	return out
}

func c08(c *Ctx) {
	c08claim(c)
	c08finalizers(c)
	// the deletion branch finds the XR through the claim's resourceRef: an XR that exists
	// before the claim durably names it is invisible to teardown
	claimRecordsFirst(c, c.method(pkgClaim, "ServerSideCompositeSyncer", "Sync"), c.method(pkgClaim, "ClientSideCompositeSyncer", "Sync"), "R8.7", "R8.8")
	c08xrd(c, "R8.2", "internal/controller/apiextensions/definition", engineStop, true)
	c08xrd(c, "R8.3", "internal/controller/apiextensions/offered", engineStopOff, false)
	c08revision(c)
	c08usage(c)
	c08engine(c)
}

func c08claim(c *Ctx) {
	c.R.Rule("R8.1", "claim: RemoveFinalizer(cm) needs WasCreated(xr)==false or ok(Delete(xr)); unreachable on foreground-consistent paths", 3,
		"removing the finalizer before the XR delete was acknowledged, or dropping the foreground return, lets the claim disappear while its XR still exists")
	fn := c.method("internal/controller/apiextensions/claim", "Reconciler", "Reconcile")
	if fn == nil {
		return
	}
	rm := calls(fn, finalizerRemove)
	del := callsWithArg(fn, 1, tXRUnstr, clientDelete)
	if !c.expect("RemoveFinalizer", len(rm), 1, fn) || !c.expect("Delete(xr)", len(del), 1, fn) {
		return
	}
	_, wcFalse, n := boolCallEdges(fn, metaWasCreated, argHasType(0, tXRUnstr))
	if n == 0 {
		c.R.Unknown(load.FuncName(fn)+": WasCreated(xr)", c.pos(fn.Pos()), "no meta.WasCreated(xr) test found")
		return
	}
	ev := cfgx.ErrEvents(del[0])
	// Delete succeeded, or the XR is already gone (IgnoreNotFound, or the explicit IsNotFound test)
	c.requireCross(site(rm[0])+" after Delete(xr)", rm[0], union(union(wcFalse, ev.OK), ev.PredTrue["errors.IsNotFound"]), "WasCreated(xr)==false or the success edge of client.Delete(xr)")

	// the foreground predicate: *cdp == CompositeDeleteForeground, tested directly
	// or through a boolean that can only be true when the comparison is
	// (`fg := cdp != nil && *cdp == Foreground`, `fg := false; if cmp { fg = true }`)
	var fgTrue []cfgx.Edge
	fgVals := map[ssa.Value]bool{}
	for _, b := range fn.Blocks {
		for _, in := range b.Instrs {
			bo, ok := in.(*ssa.BinOp)
			if !ok || !isEqOrNeq(bo) {
				continue
			}
			for _, side := range []ssa.Value{bo.X, bo.Y} {
				if s, ok := cfgx.ConstString(side); ok && s == "Foreground" && strings.HasSuffix(side.Type().String(), "common/v1.CompositeDeletePolicy") {
					fgVals[bo] = true
					t, _ := eqEdges(bo)
					fgTrue = append(fgTrue, t...)
				}
			}
		}
	}
	if len(fgVals) == 0 {
		c.R.Unknown(load.FuncName(fn)+": foreground predicate", c.pos(fn.Pos()), "no comparison with xpv1.CompositeDeleteForeground found")
		return
	}
	for changed := true; changed; {
		changed = false
		for _, b := range fn.Blocks {
			for _, in := range b.Instrs {
				phi, ok := in.(*ssa.Phi)
				if !ok || fgVals[phi] {
					continue
				}
				ls := leaves(phi)
				all := len(ls) > 0
				for _, l := range ls {
					if !fgVals[l] {
						all = false
					}
				}
				if all {
					fgVals[phi] = true
					changed = true
				}
			}
		}
	}
	var tr, fa []cfgx.Edge
	for v := range fgVals {
		if _, isPhi := v.(*ssa.Phi); isPhi {
			t, f := cfgx.CondEdges(v)
			tr, fa = append(tr, t...), append(fa, f...)
		}
	}
	for _, phi := range cfgx.FlagPhis(fn, fgTrue) {
		t, f := cfgx.CondEdges(phi)
		tr, fa = append(tr, t...), append(fa, f...)
	}
	tr = append(tr, fgTrue...)
	if len(fa) == 0 {
		c.R.Unknown(load.FuncName(fn)+": foreground flag", c.pos(fn.Pos()), "the foreground predicate is not tested through a recognised flag")
		return
	}
	reach, w := cfgx.ReachableFromEdges(tr, rm[0], fa, c.posf())
	c.R.Check(!reach, site(rm[0])+" foreground", c.pos(rm[0].Pos()),
		"on paths consistent with foreground deletion the finalizer removal is unreachable (the reconcile returns and waits for the XR)",
		"with the Foreground policy a path reaches RemoveFinalizer although the XR may still exist", w...)

	// Delete(xr) itself happens only for a created XR, after nothing else removed the finalizer
	wcTrue, _, _ := boolCallEdges(fn, metaWasCreated, argHasType(0, tXRUnstr))
	c.requireCross(site(del[0])+" only if created", del[0], wcTrue, "WasCreated(xr)==true")
}

func c08xrd(c *Ctx, rule, pkg, stopName string, composite bool) {
	c.R.Rule(rule, pkg[strings.LastIndex(pkg, "/")+1:]+": CRD delete needs ours ∧ no instances ∧ ok(Stop); Stop needs not-ours ∨ no instances; finalizer needs not-ours ∧ ok(Stop)", 7,
		"deleting the CRD before the controller stopped crashes the controller; stopping it while instances exist orphans them with their finalizers; dropping the XRD finalizer while the CRD is ours orphans the CRD")
	fn := c.method(pkg, "Reconciler", "Reconcile")
	if fn == nil {
		return
	}
	wdTrue, _, _ := boolCallEdges(fn, metaWasDeleted, nil)
	delCRD := callsWithArg(fn, 1, tCRD, clientDelete)
	rm := calls(fn, finalizerRemove)
	list := callsWithArg(fn, 1, tKUnstrList, clientList)
	if !c.expect("Delete(crd)", len(delCRD), 1, fn) || !c.expect("RemoveFinalizer", len(rm), 1, fn) || !c.expect("List(instances)", len(list), 1, fn) {
		return
	}
	var stops []ssa.CallInstruction
	for _, s := range calls(fn, stopName) {
		if ok, _ := cfgx.MustCross(s, wdTrue, nil); ok {
			stops = append(stops, s)
		}
	}
	if len(stops) < 1 {
		c.R.Unknown(load.FuncName(fn)+": engine.Stop in the deletion branch", c.pos(fn.Pos()), "expected a Stop call in the WasDeleted branch")
		return
	}
	wcTrue, wcFalse, _ := boolCallEdges(fn, metaWasCreated, argHasType(0, tCRD))
	icTrue, icFalse, _ := boolCallEdges(fn, metaIsControlledBy, argHasType(0, tCRD))
	// "not ours": one of the two tests failed, or a boolean and-combining them (`ours := created && controlled`) is false
	var oursVals []ssa.Value
	for _, nm := range []string{metaWasCreated, metaIsControlledBy} {
		for _, x := range calls(fn, nm) {
			if argHasType(0, tCRD)(cfgx.CallArgs(x)) {
				oursVals = append(oursVals, x.Value())
			}
		}
	}
	notOurs := union(wcFalse, icFalse, boolConjFalseEdges(fn, oursVals))
	if len(wcTrue) == 0 || len(icTrue) == 0 {
		c.R.Unknown(load.FuncName(fn)+": CRD-is-ours predicate", c.pos(fn.Pos()), "WasCreated(crd)/IsControlledBy(crd, d) tests not found")
		return
	}
	// emptiness test on the listed instances
	listObj := flow.Root(underIface(cfgx.CallArgs(list[0])[1]))
	var empty, nonEmpty []cfgx.Edge
	for _, lc := range cfgx.LenCmps(fn) {
		if flow.Root(lc.Of) != listObj && !flow.Strict.Any(lc.Of, func(v ssa.Value) bool { return v == listObj }) {
			continue
		}
		t, f := lc.Edges()
		z, one, two := lc.Eval(0), lc.Eval(1), lc.Eval(2)
		if z == one || one != two {
			c.R.Bad(load.FuncName(fn)+": instance emptiness test", c.pos(lc.Bin.Pos()), "the comparison on len(l.Items) does not separate 0 from ≥1 instances")
			continue
		}
		if z {
			empty, nonEmpty = append(empty, t...), append(nonEmpty, f...)
		} else {
			empty, nonEmpty = append(empty, f...), append(nonEmpty, t...)
		}
	}
	if len(empty) == 0 {
		c.R.Unknown(load.FuncName(fn)+": instance emptiness test", c.pos(list[0].Pos()), "no len(l.Items) comparison found on the listed instances")
		return
	}
	var stopOK []cfgx.Edge
	for _, s := range stops {
		stopOK = append(stopOK, okEdges(s)...)
	}
	d := delCRD[0]
	c.requireCross(site(d)+" crd-created", d, wcTrue, "WasCreated(crd)==true")
	c.requireCross(site(d)+" crd-controlled", d, icTrue, "IsControlledBy(crd, d)==true")
	c.requireCross(site(d)+" list-ok", d, okEdges(list[0], "Ignore(IsNoMatchError)"), "the success edge of List(instances) (no-match: the kind is not served, so there are no instances)")
	c.requireCross(site(d)+" no-instances", d, empty, "the len(l.Items)==0 edge")
	c.requireCross(site(d)+" after-stop", d, stopOK, "the success edge of engine.Stop")
	for _, s := range stops {
		c.requireCross(site(s)+" not-ours-or-empty", s, union(notOurs, empty), "CRD not ours, or no instances left")
	}
	c.requireCross(site(rm[0])+" not-ours", rm[0], notOurs, "WasCreated(crd)==false or IsControlledBy(crd,d)==false")
	c.requireCross(site(rm[0])+" after-stop", rm[0], stopOK, "the success edge of engine.Stop")
	c.requireCross(site(rm[0])+" deleted", rm[0], wdTrue, "WasDeleted(d)==true")
	// instance deletion precedes the emptiness test
	var inst []ssa.CallInstruction
	if composite {
		inst = callsWithArg(fn, 1, tKUnstr, clientDeleteAllOf)
	} else {
		inst = callsWithArg(fn, 1, tKUnstr, clientDelete)
	}
	if c.expect("instance delete", len(inst), 1, fn) {
		if composite {
			c.R.Check(cfgx.MustPass(inst[0].Block(), list[0].Block()), site(inst[0])+" before-list", c.pos(inst[0].Pos()),
				"DeleteAllOf(instances) dominates the List whose emptiness gates Stop", "the instance deletion does not precede the emptiness test")
		} else {
			// a delete inside the range over the listed items only runs when there are any
			ranged := cfgx.LoopOf(inst[0].Block()) != nil && flow.Default.Any(cfgx.CallArgs(inst[0])[1], func(v ssa.Value) bool {
				ia, ok := v.(*ssa.IndexAddr)
				return ok && flow.Root(ia.X) == flow.Root(underIface(cfgx.CallArgs(list[0])[1]))
			})
			if ranged {
				c.R.OK(site(inst[0])+" nonempty", c.pos(inst[0].Pos()), "the claims are deleted inside the range over the listed items")
			} else {
				c.requireCross(site(inst[0])+" nonempty", inst[0], nonEmpty, "the len(l.Items)>0 edge")
			}
			reach, w := cfgx.ReachableFromEdges(nonEmpty, d, nil, c.posf())
			c.R.Check(!reach, site(inst[0])+" requeue", c.pos(inst[0].Pos()), "after deleting instances the reconcile returns (requeue) without reaching Stop/Delete(crd)", "the CRD delete is reachable from the non-empty edge", w...)
		}
	}
	// non-empty list: nothing of Stop / Delete(crd) / RemoveFinalizer reachable
	for _, s := range stops {
		reach, w := cfgx.ReachableFromEdges(nonEmpty, s, nil, c.posf())
		c.R.Check(!reach, site(s)+" unreachable-when-instances", c.pos(s.Pos()), "Stop is unreachable from the instances-exist edge", "Stop is reachable although instances exist", w...)
	}
}

func c08revision(c *Ctx) {
	c.R.Rule("R8.4", "package revision: RemoveFinalizer(pr) needs ok(lock.RemoveSelf); deactivation removes self from the lock before releasing objects", 4,
		"a finalized revision that is still in the Lock blocks dependency resolution of every other package")
	pkg := "internal/controller/pkg/revision"
	fn := c.method(pkg, "Reconciler", "Reconcile")
	removeSelf := "(" + xp + pkg + ".DependencyManager).RemoveSelf"
	if fn != nil {
		rm := calls(fn, finalizerRemove)
		rs := calls(fn, removeSelf)
		if c.expect("RemoveFinalizer", len(rm), 1, fn) && c.expect("RemoveSelf", len(rs), 1, fn) {
			c.requireCross(site(rm[0])+" after-removeself", rm[0], okEdges(rs[0]), "the success edge of lock.RemoveSelf")
			wdTrue, _, _ := boolCallEdges(fn, metaWasDeleted, nil)
			c.requireCross(site(rm[0])+" deleted", rm[0], wdTrue, "WasDeleted(pr)==true")
		}
	}
	de := c.method(pkg, "Reconciler", "deactivateRevision")
	if de != nil {
		rs := calls(de, removeSelf)
		rel := calls(de, "("+xp+pkg+".Establisher).ReleaseObjects")
		if c.expect("RemoveSelf", len(rs), 1, de) && c.expect("ReleaseObjects", len(rel), 1, de) {
			c.requireCross(site(rel[0])+" after-removeself", rel[0], okEdges(rs[0]), "the success edge of lock.RemoveSelf")
		}
	}
	// RemoveSelf itself: nil is returned only when the lock is absent, self is absent, or the Update result is returned.
	rsf := c.method(pkg, "PackageDependencyManager", "RemoveSelf")
	if rsf != nil {
		get := calls(rsf, clientGet)
		upd := calls(rsf, clientUpdate)
		if c.expect("Get(lock)", len(get), 1, rsf) && c.expect("Update(lock)", len(upd), 1, rsf) {
			ev := cfgx.ErrEvents(upd[0])
			c.R.Check(ev.Returned && !ev.Dropped, site(upd[0])+" returned", c.pos(upd[0].Pos()), "the Update error is the function's result", "the lock Update error is not returned to the caller")
			c.requireCross(site(upd[0])+" after-get", upd[0], okEdges(get[0]), "the success edge of Get(lock)")
			lockObj := flow.Root(underIface(cfgx.CallArgs(get[0])[2]))
			same := flow.Root(underIface(cfgx.CallArgs(upd[0])[1])) == lockObj
			c.R.Check(same, site(upd[0])+" same-object", c.pos(upd[0].Pos()), "the object updated is the lock that was read", "the updated object is not the lock read by Get")
		}
	}
}

// fieldAddrNamed reports whether v is a FieldAddr/Field selecting field `name` of a struct named typ.
func isFieldSel(v ssa.Value, typ, name string) bool {
	var st types.Type
	var idx int
	switch x := v.(type) {
	case *ssa.FieldAddr:
		st, idx = x.X.Type().Underlying().(*types.Pointer).Elem(), x.Field
	case *ssa.Field:
		st, idx = x.X.Type(), x.Field
	default:
		return false
	}
	n, ok := st.(*types.Named)
	if !ok || !strings.HasSuffix(n.String(), typ) {
		return false
	}
	s, ok := n.Underlying().(*types.Struct)
	return ok && s.Field(idx).Name() == name
}

func c08usage(c *Ctx) {
	c.R.Rule("R8.5", "usage: RemoveFinalizer(u) is unreachable from the edge on which Get(using) succeeded in the deletion branch", 2,
		"a composed Usage finalized while its using resource still exists stops protecting the used resource during XR deletion")
	fn := c.method("internal/controller/apiextensions/usage", "Reconciler", "Reconcile")
	if fn == nil {
		return
	}
	rm := calls(fn, finalizerRemove)
	if !c.expect("RemoveFinalizer", len(rm), 1, fn) {
		return
	}
	wdTrue, _, _ := boolCallEdges(fn, metaWasDeleted, nil)
	var getUsing []ssa.CallInstruction
	for _, g := range calls(fn, clientGet) {
		if ok, _ := cfgx.MustCross(g, wdTrue, nil); !ok {
			continue
		}
		key := cfgx.CallArgs(g)[1]
		if flow.Default.Any(key, func(v ssa.Value) bool { return isFieldSel(v, "v1beta1.UsageSpec", "By") }) {
			getUsing = append(getUsing, g)
		}
	}
	if !c.expect("Get(using) in the deletion branch", len(getUsing), 1, fn) {
		return
	}
	ev := cfgx.ErrEvents(getUsing[0])
	if len(ev.RawOK) == 0 {
		c.R.Bad(site(getUsing[0])+" exists-test", c.pos(getUsing[0].Pos()), "the error of Get(using) is never tested unfiltered (err == nil): an existing using resource cannot be told from a missing one")
		return
	}
	reach, w := cfgx.ReachableFromEdges(ev.RawOK, rm[0], nil, c.posf())
	c.R.Check(!reach, site(rm[0])+" using-gone", c.pos(rm[0].Pos()),
		"RemoveFinalizer is unreachable from the edge where the using resource was read successfully", "the Usage finalizer can be removed although its using resource still exists", w...)
	c.requireCross(site(rm[0])+" deleted", rm[0], wdTrue, "WasDeleted(u)==true")
	// The wait itself is skipped only for a Usage that names no using resource
	// (spec.by == nil) or is not composed (no composite label): every branch of
	// the deletion path whose one side leads to Get(using) and whose other side
	// reaches RemoveFinalizer without it tests exactly one of those two facts.
	gb, rb := getUsing[0].Block(), rm[0].Block()
	strip := func(v ssa.Value) ssa.Value {
		for {
			switch x := v.(type) {
			case *ssa.UnOp:
				if x.Op != token.MUL {
					return v
				}
				v = x.X
			case *ssa.ChangeType:
				v = x.X
			default:
				return v
			}
		}
	}
	nBypass := 0
	for _, b := range fn.Blocks {
		if len(b.Instrs) == 0 {
			continue
		}
		iff, ok := b.Instrs[len(b.Instrs)-1].(*ssa.If)
		if !ok {
			continue
		}
		if in, _ := cfgx.MustCross(iff, wdTrue, nil); !in {
			continue
		}
		for i := 0; i < 2; i++ {
			e, o := cfgx.Edge{From: b, Idx: i}, cfgx.Edge{From: b, Idx: 1 - i}
			ro, _ := cfgx.ReachFromEdges([]cfgx.Edge{o}, nil)
			re, _ := cfgx.ReachFromEdges([]cfgx.Edge{e}, nil)
			if !ro[gb] || re[gb] || !re[rb] {
				continue
			}
			bin, ok := iff.Cond.(*ssa.BinOp)
			if !ok || (bin.Op != token.EQL && bin.Op != token.NEQ) {
				continue // a flag or predicate: not decided here (R8.5's reachability clause still applies)
			}
			nBypass++
			x, y := bin.X, bin.Y
			if _, isConst := x.(*ssa.Const); isConst {
				x, y = y, x
			}
			tabled := ""
			if cfgx.IsNilConst(y) && isFieldSel(strip(x), "v1beta1.UsageSpec", "By") {
				tabled = "spec.by is nil: the Usage names no using resource"
			}
			if s, isStr := cfgx.ConstString(y); isStr && s == "" {
				fromLabels := flow.Default.Any(x, func(v ssa.Value) bool {
					if l, ok := v.(*ssa.Lookup); ok {
						return flow.Default.Any(l.X, func(w ssa.Value) bool { return isFieldSel(w, "v1.ObjectMeta", "Labels") }) || strings.Contains(l.X.String(), "GetLabels")
					}
					return false
				})
				if fromLabels {
					tabled = "a label of the Usage is empty: the Usage is not composed"
				}
			}
			c.R.Check(tabled != "", load.FuncName(fn)+": skipping the wait for the using resource on "+types.ExprString(condExpr(bin)), c.pos(iff.Pos()),
				"tabled: "+tabled, "a deleted Usage reaches RemoveFinalizer without reading its using resource on a condition that is neither 'spec.by is nil' nor 'not composed': a composed Usage whose using resource still exists can be finalized")
		}
	}
	if nBypass == 0 {
		c.R.OKTrivial(load.FuncName(fn)+": wait for the using resource", c.pos(getUsing[0].Pos()), "no comparison lets the deletion path skip Get(using)")
	}
}

// condExpr renders a comparison for an obligation's construct by operand kind (never by position).
func condExpr(b *ssa.BinOp) ast.Expr {
	name := func(v ssa.Value) string {
		for {
			switch x := v.(type) {
			case *ssa.UnOp:
				v = x.X
				continue
			case *ssa.FieldAddr:
				if p, ok := x.X.Type().Underlying().(*types.Pointer); ok {
					if st, ok := p.Elem().Underlying().(*types.Struct); ok {
						return "." + st.Field(x.Field).Name()
					}
				}
			case *ssa.Field:
				if st, ok := x.X.Type().Underlying().(*types.Struct); ok {
					return "." + st.Field(x.Field).Name()
				}
			case *ssa.Lookup:
				return "lookup"
			case *ssa.Const:
				if x.IsNil() {
					return "nil"
				}
				return "const"
			}
			return "value"
		}
	}
	return &ast.BinaryExpr{X: ast.NewIdent(name(b.X)), Op: b.Op, Y: ast.NewIdent(name(b.Y))}
}

func c08engine(c *Ctx) { engineStopRule(c, "R8.6") }

// engineStopRule is shared by C08 (R8.6) and C13 (R13.9).
func engineStopRule(c *Ctx, id string) {
	c.R.Rule(id, "engine.Stop: nil for a running controller only after every source stopped, cancel() and delete(controllers); StoppableSource.Stop clears reg only after RemoveEventHandler succeeded", 5,
		"a controller reported stopped that still has event handlers or a live context keeps reconciling instances of a CRD that is about to be deleted")
	fn := c.method("internal/engine", "ControllerEngine", "Stop")
	if fn != nil {
		var srcStop []ssa.CallInstruction
		for _, x := range cfgx.Calls(fn, nil) {
			if cfgx.CalleeName(x) == "(*"+xp+"internal/engine.StoppableSource).Stop" {
				srcStop = append(srcStop, x)
			}
		}
		var cancel ssa.CallInstruction
		var delCtl, delSrc *ssa.MapUpdate
		_ = delCtl
		_ = delSrc
		var delCalls []ssa.CallInstruction
		for _, x := range cfgx.Calls(fn, nil) {
			if cfgx.CalleeName(x) == "builtin.delete" {
				delCalls = append(delCalls, x)
			}
			if cfgx.CalleeName(x) == "" {
				// dynamic call of a func value: c.cancel()
				if flow.Default.Any(x.Common().Value, func(v ssa.Value) bool { return isFieldSel(v, "engine.controller", "cancel") }) {
					cancel = x
				}
			}
		}
		var delControllers, delSources ssa.CallInstruction
		for _, d := range delCalls {
			m := d.Common().Args[0]
			if flow.Default.Any(m, func(v ssa.Value) bool { return isFieldSel(v, "engine.ControllerEngine", "controllers") }) {
				delControllers = d
			}
			if flow.Default.Any(m, func(v ssa.Value) bool { return isFieldSel(v, "engine.controller", "sources") }) {
				delSources = d
			}
		}
		if len(srcStop) != 1 || cancel == nil || delControllers == nil || delSources == nil {
			c.R.Unknown(load.FuncName(fn)+": shape", c.pos(fn.Pos()), "expected one w.Stop, c.cancel(), delete(c.sources,…) and delete(e.controllers,…)")
		} else {
			c.requireCross(site(delSources)+" after-source-stop", delSources, okEdges(srcStop[0]), "the success edge of w.Stop")
			loop := cfgx.LoopOf(srcStop[0].Block())
			c.R.Check(loop != nil && !loop[cancel.Block()] && !loop[delControllers.Block()], load.FuncName(fn)+": cancel after loop", c.pos(cancel.Pos()),
				"cancel() and delete(e.controllers) are outside (after) the sources loop", "cancel()/delete(e.controllers) are inside the sources loop or there is no loop")
			if loop != nil {
				// exits of the loop that continue in the function: only the range-done edge may reach cancel
				var bad []cfgx.Edge
				for _, e := range cfgx.ExitEdgesOf(loop) {
					if e.From != srcStop[0].Block() && !isRangeDone(e) {
						bad = append(bad, e)
					}
				}
				_ = bad
				reach, w := cfgx.ReachableFromEdges(failEdges(srcStop[0]), cancel, nil, c.posf())
				c.R.Check(!reach, load.FuncName(fn)+": source-stop failure returns", c.pos(srcStop[0].Pos()), "a failed w.Stop returns without cancelling or forgetting the controller", "cancel() is reachable after a failed w.Stop", w...)
			}
			c.R.Check(!cfgx.InstrReaches(cancel, srcStop[0], nil), load.FuncName(fn)+": cancel after the sources", c.pos(cancel.Pos()),
				"no source is stopped after c.cancel(): the controller's context is still live while its watches are torn down", "c.cancel() runs before the watches are stopped: a Stop issued with the controller's own (now cancelled) context, or any failed source stop, leaves a cancelled controller registered as running")
			// `if c.cancel != nil { c.cancel() }`: nothing to cancel is not a way round the cancel
			var nothingToCancel []cfgx.Edge
			for _, cf := range findCmps(fn, true, func(x, y ssa.Value) bool {
				if !cfgx.IsNilConst(y) {
					return false
				}
				r1, p1, ok1 := flow.AccessPathC(x)
				r2, p2, ok2 := flow.AccessPathC(cancel.Common().Value)
				return ok1 && ok2 && r1 == r2 && p1 == p2 // another read of the same c.cancel
			}) {
				nothingToCancel = append(nothingToCancel, cf.Holds...)
			}
			passes := func(b *ssa.BasicBlock) bool {
				if cfgx.MustPass(cancel.Block(), b) {
					return true
				}
				if len(nothingToCancel) == 0 {
					return false
				}
				seen := cfgx.ReachFromEntry(fn, map[*ssa.BasicBlock]bool{cancel.Block(): true}, nothingToCancel)
				return !seen[b] || b == cancel.Block()
			}
			c.R.Check(cfgx.InstrReaches(cancel, delControllers, nil) && passes(delControllers.Block()), load.FuncName(fn)+": cancel→delete", c.pos(delControllers.Pos()),
				"delete(e.controllers, name) is dominated by c.cancel()", "the controller is forgotten without being cancelled")
			// every nil-return on the running edge passes cancel: returns reachable from the block after the running test
			for _, b := range fn.Blocks {
				r, ok := b.Instrs[len(b.Instrs)-1].(*ssa.Return)
				if !ok {
					continue
				}
				if cfgx.InstrReaches(srcStop[0], r, failEdges(srcStop[0])) || loopDoneReaches(loop, r) {
					okc := false
					if cfgx.InstrReaches(cancel, r, nil) {
						okc = passes(r.Block())
					} else {
						continue
					}
					c.R.Check(okc, load.FuncName(fn)+": return after cancel", c.pos(r.Pos()), "the success return is dominated by cancel() and delete(e.controllers)", "a return after the sources loop is not dominated by cancel()")
				}
			}
		}
	}
	ss := c.method("internal/engine", "StoppableSource", "Stop")
	if ss != nil {
		var rem []ssa.CallInstruction
		for _, x := range cfgx.Calls(ss, nil) {
			if strings.HasSuffix(cfgx.CalleeName(x), ").RemoveEventHandler") {
				rem = append(rem, x)
			}
		}
		if c.expect("RemoveEventHandler", len(rem), 1, ss) {
			// stores of nil to s.reg need ok(RemoveEventHandler)
			n := 0
			for _, b := range ss.Blocks {
				for _, in := range b.Instrs {
					st, ok := in.(*ssa.Store)
					if !ok || !isFieldSel(st.Addr, "engine.StoppableSource", "reg") {
						continue
					}
					n++
					c.requireCross(load.FuncName(ss)+": s.reg=nil", st, okEdges(rem[0]), "the success edge of RemoveEventHandler")
				}
			}
			if n == 0 {
				c.R.Unknown(load.FuncName(ss)+": s.reg store", c.pos(ss.Pos()), "no store to s.reg found")
			}
			// a nil return with reg != nil requires the call
			_, regNil := regNilEdges(ss)
			if len(regNil) > 0 {
				c.requireCross(site(rem[0])+" reg-non-nil", rem[0], regNil, "s.reg != nil")
			}
		}
	}
}

func isRangeDone(e cfgx.Edge) bool {
	return strings.HasPrefix(e.To().Comment, "rangeiter.done") || strings.HasPrefix(e.To().Comment, "rangeindex.done")
}

func loopDoneReaches(loop map[*ssa.BasicBlock]bool, r *ssa.Return) bool {
	if loop == nil {
		return false
	}
	for _, e := range cfgx.ExitEdgesOf(loop) {
		if isRangeDone(e) {
			seen, _ := cfgx.ReachBlocks([]*ssa.BasicBlock{e.To()}, nil)
			if seen[r.Block()] {
				return true
			}
		}
	}
	return false
}

// regNilEdges finds `s.reg == nil` / `!= nil` tests: returns (nil edges, non-nil edges).
func regNilEdges(fn *ssa.Function) (isNil, notNil []cfgx.Edge) {
	for _, b := range fn.Blocks {
		for _, in := range b.Instrs {
			bo, ok := in.(*ssa.BinOp)
			if !ok || (bo.Op != token.EQL && bo.Op != token.NEQ) {
				continue
			}
			var other ssa.Value
			if cfgx.IsNilConst(bo.X) {
				other = bo.Y
			} else if cfgx.IsNilConst(bo.Y) {
				other = bo.X
			} else {
				continue
			}
			if !flow.Strict.Any(other, func(v ssa.Value) bool { return isFieldSel(v, "engine.StoppableSource", "reg") }) {
				continue
			}
			t, f := cfgx.CondEdges(bo)
			if bo.Op == token.EQL {
				isNil, notNil = append(isNil, t...), append(notNil, f...)
			} else {
				isNil, notNil = append(isNil, f...), append(notNil, t...)
			}
		}
	}
	return
}

// c08finalizers: the two controllers that tear an XRD down (definition: XR CRD and
// XR controller; offered: claim CRD and claim controller) each hold their own
// finalizer on the XRD. With one shared name the half that finishes first
// releases the XRD while the other half's CRD and controller still exist.
func c08finalizers(c *Ctx) {
	c.R.Rule("R8.9", "the XRD controllers hold distinct finalizers", 1, "the XRD is finalized when the first of the two teardowns is done: the other CRD, its instances and its controller outlive it")
	vals := map[string]string{}
	for _, pp := range []string{"internal/controller/apiextensions/definition", "internal/controller/apiextensions/offered"} {
		pkg := c.P.SSAPkgs[xp+pp]
		if pkg == nil {
			continue
		}
		if k, ok := pkg.Members["finalizer"].(*ssa.NamedConst); ok && k.Value != nil {
			if s, isS := cfgx.ConstString(k.Value); isS {
				vals[pp] = s
			}
		}
	}
	if len(vals) != 2 {
		c.R.Unknown("finalizer constants", "", "expected a finalizer constant in the definition and the offered controller")
		return
	}
	a, b := vals["internal/controller/apiextensions/definition"], vals["internal/controller/apiextensions/offered"]
	c.R.Check(a != b && a != "" && b != "", "definition/offered finalizer names", "", "the two finalizers differ ("+a+", "+b+")", "the definition and the offered controller use the same finalizer name "+a+": either of them releases the XRD for both")
}
