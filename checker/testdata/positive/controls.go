// Package positive holds tiny programs that violate (or satisfy) the rule
// families of the checker. The thorough tier runs the engine on them on every
// run: a control that does not fire means the checker itself is broken.
package positive

import (
	"errors"
	"sync"
)

type api struct{}

func (api) Write(string) error { return nil }
func (api) Create(string) error { return nil }
func (api) Delete(string) error { return nil }

func isBenign(error) bool { return false }

// GateMissing: Create is reachable although Write failed (error only logged).
func GateMissing(a api) error {
	if err := a.Write("refs"); err != nil {
		_ = err
	}
	return a.Create("x")
}

// GateHeld: Create needs ok(Write).
func GateHeld(a api) error {
	if err := a.Write("refs"); err != nil {
		return err
	}
	return a.Create("x")
}

// LoopSkip: an iteration can skip the Delete for an unlisted reason.
func LoopSkip(a api, xs []string) error {
	for _, x := range xs {
		if x == "" {
			continue
		}
		if len(x) > 3 {
			continue // not whitelisted
		}
		if err := a.Delete(x); err != nil {
			return err
		}
	}
	return nil
}

// LoopEarlySuccess: returns nil from inside the loop.
func LoopEarlySuccess(a api, xs []string) error {
	for _, x := range xs {
		if err := a.Delete(x); err != nil {
			if isBenign(err) {
				return nil
			}
			return err
		}
	}
	return nil
}

// FlagPath: the store happens although step two failed (flag not cleared).
func FlagPath(a api) (stored bool) {
	ok := true
	if err := a.Write("one"); err != nil {
		ok = false
	}
	if err := a.Write("two"); err != nil {
		_ = err // forgot ok = false
	}
	if ok {
		stored = true
		_ = a.Create("x")
	}
	return stored
}

// FlagPathGood: both failures clear the flag.
func FlagPathGood(a api) (stored bool) {
	ok := true
	if err := a.Write("one"); err != nil {
		ok = false
	}
	if err := a.Write("two"); err != nil {
		ok = false
	}
	if ok {
		stored = true
		_ = a.Create("x")
	}
	return stored
}

type guarded struct {
	mx sync.RWMutex
	m  map[string]int
	mu sync.RWMutex
}

// LockLeak returns with the lock held on one path.
func (g *guarded) LockLeak(k string) int {
	g.mx.RLock()
	if v, ok := g.m[k]; ok {
		return v // missing RUnlock
	}
	g.mx.RUnlock()
	return 0
}

// UnguardedWrite writes the map under the read lock.
func (g *guarded) UnguardedWrite(k string) {
	g.mx.RLock()
	defer g.mx.RUnlock()
	g.m[k] = 1
}

// ConditionalDefer is the repo's idiom and must be accepted.
func (g *guarded) ConditionalDefer(k string) int {
	g.mx.RLock()
	if v, ok := g.m[k]; ok {
		defer g.mx.RUnlock()
		return v
	}
	g.mx.RUnlock()
	g.mx.Lock()
	defer g.mx.Unlock()
	g.m[k] = 0
	return 0
}

// OrderAB / OrderBA form a lock-order cycle.
func (g *guarded) OrderAB() {
	g.mx.Lock()
	g.mu.Lock()
	g.mu.Unlock()
	g.mx.Unlock()
}

func (g *guarded) OrderBA() {
	g.mu.Lock()
	g.mx.Lock()
	g.mx.Unlock()
	g.mu.Unlock()
}

// IndexUnbounded indexes with a value that only has an upper bound.
func IndexUnbounded(xs []string, g int) (string, error) {
	if g >= len(xs) {
		return "", errors.New("no")
	}
	return xs[g], nil
}

// IndexBounded has both bounds.
func IndexBounded(xs []string, g int) (string, error) {
	if g < 0 || g >= len(xs) {
		return "", errors.New("no")
	}
	return xs[g], nil
}

// SelfCarry keeps an older value across iterations.
func SelfCarry(next func() *int, n int) *int {
	var cur *int
	for i := 0; i < n; i++ {
		if v := next(); v != nil {
			cur = v
		}
	}
	return cur
}

// --- path-sensitive reachability ------------------------------------------

// ResultTempGood is the shape an inlined helper leaves behind: the error of
// Write travels through a result temporary (a phi) to the caller's nil test.
// Create needs ok(Write): holds.
func ResultTempGood(a api, skip bool) error {
	var r error
	for {
		if err := a.Write("refs"); err != nil {
			r = errors.New("wrapped: " + err.Error())
			break
		}
		r = nil
		break
	}
	if r != nil {
		return r
	}
	return a.Create("x")
}

// ResultTempBad: one path leaves the temporary nil without having written
// (early `return nil` of the helper): Create is reachable without ok(Write).
func ResultTempBad(a api, skip bool) error {
	var r error
	for {
		if skip {
			r = nil
			break
		}
		if err := a.Write("refs"); err != nil {
			r = err
			break
		}
		r = nil
		break
	}
	if r != nil {
		return r
	}
	return a.Create("x")
}

// RetestedGood: the same value is tested twice; Create is unreachable when the
// flag is set although the second test alone would let it through.
func RetestedGood(a api, rc *int, never bool) error {
	if rc == nil && never {
		return errors.New("not cached")
	}
	if rc == nil {
		if never {
			return a.Create("never") // infeasible
		}
		return a.Write("fetch")
	}
	return nil
}

// PredicateGood: isBenign(err) is asked twice about the same error value.
func PredicateGood(a api) error {
	err := a.Write("a")
	if isBenign(err) {
		err = a.Write("b")
	}
	if isBenign(err) {
		return nil // only the second Write's benign error gets here
	}
	return err
}

// --- normaliser --------------------------------------------------------------

// helperWrite / helperMaybeWrite play the part of helpers a refactoring
// extracted: the self-check inlines them into their callers.
func helperWrite(a api) error {
	if err := a.Write("refs"); err != nil {
		return errors.New("cannot write: " + err.Error())
	}
	return nil
}

func helperMaybeWrite(a api, skip bool) error {
	if skip {
		return nil
	}
	return a.Write("refs")
}

// ExtractedGood: Create still needs ok(Write) once the helper is inlined.
func ExtractedGood(a api) error {
	if err := helperWrite(a); err != nil {
		return err
	}
	return a.Create("x")
}

// ExtractedBad: the helper can return nil without writing.
func ExtractedBad(a api, skip bool) error {
	if err := helperMaybeWrite(a, skip); err != nil {
		return err
	}
	return a.Create("x")
}

// ClosureFlag: a flag is cleared inside a local closure; once the closure's
// calls are inlined (and its definition dropped) the flag is a plain local again.
func ClosureFlag(a api) (stored bool) {
	rendered := true
	fail := func(err error) {
		_ = err
		rendered = false
	}
	if err := a.Write("one"); err != nil {
		fail(err)
	}
	if err := a.Write("two"); err != nil {
		fail(err)
	}
	if rendered {
		_ = a.Create("x")
		stored = true
	}
	return stored
}

type names struct{ Kind, Plural, Singular string }

// TableCompare: the comparisons are the rows of a local table; a row appended
// under a condition only runs under it. Written out row by row there is no
// loop left, and each comparison is between the two fields the row names.
func TableCompare(a, b *names, strict bool) error {
	rows := []struct {
		x, y string
		opt  bool
	}{
		{x: a.Kind, y: b.Kind},
		{x: a.Plural, y: b.Plural, opt: true},
	}
	if strict {
		rows = append(rows, struct {
			x, y string
			opt  bool
		}{x: a.Singular, y: b.Singular})
	}
	for _, r := range rows {
		if r.opt && r.x == "" {
			continue
		}
		if r.x != r.y {
			continue
		}
		return errors.New("conflict")
	}
	return nil
}

// BundleMax: accumulators kept in the fields of a local struct and handed on
// by copying the struct are plain locals once the bundle is taken apart.
func BundleMax(xs []int) int {
	s := struct{ max, idx int }{idx: -1}
	for i, x := range xs {
		if x > s.max {
			s.max = x
			s.idx = i
		}
	}
	out := s
	return out.idx
}

// RetestedSwitch: `case nf && ctl:` followed by `case nf:` — in the second
// arm ctl is known false (nf was true both times, so the first arm failed on
// ctl). The marker call in the second arm needs "ctl == false or ok(Create)".
func RetestedSwitch(a api, err error, ctl bool) error {
	nf := isBenign(err)
	switch {
	case nf && ctl:
		if err := a.Create("x"); err != nil {
			return err
		}
	case nf:
		_ = a.Delete("second-arm")
	default:
		if err := a.Write("x"); err != nil {
			return err
		}
	}
	return nil
}
