package claim

// Demonstration for finding F6 (property C07): the client-side claim syncer
// copies a user-defined XR spec field that the claim does not have back into
// the claim's spec (late initialisation). The property states that in the
// XR -> claim direction only user-defined *status* fields, the composition
// reference (when the claim has none), the composition revision (Automatic
// policy) and the external name reach the claim. Recorded as a known finding,
// not repaired: the merge is deliberate upstream behaviour of the client-side
// syncer. Drop into internal/controller/apiextensions/claim/ and run
// `go test -run TestF6 ./internal/controller/apiextensions/claim/`.

import (
	"context"
	"testing"

	metav1 "k8s.io/apimachinery/pkg/apis/meta/v1"
	"k8s.io/apimachinery/pkg/apis/meta/v1/unstructured"
	"sigs.k8s.io/controller-runtime/pkg/client"

	"github.com/crossplane/crossplane-runtime/pkg/resource/unstructured/claim"
	"github.com/crossplane/crossplane-runtime/pkg/resource/unstructured/composite"
	"github.com/crossplane/crossplane-runtime/pkg/test"

	"github.com/crossplane/crossplane/internal/names"
)

func TestF6ClientSideSyncerCopiesXRSpecFieldIntoClaim(t *testing.T) {
	now := metav1.Now()
	cm := &claim.Unstructured{Unstructured: unstructured.Unstructured{Object: map[string]any{
		"apiVersion": "example.org/v1", "kind": "Claim",
		"metadata": map[string]any{"namespace": "ns", "name": "cm"},
		"spec":     map[string]any{"a": int64(1), "resourceRef": map[string]any{"apiVersion": "example.org/v1", "kind": "XR", "name": "xr"}},
	}}}
	xr := &composite.Unstructured{Unstructured: unstructured.Unstructured{Object: map[string]any{
		"apiVersion": "example.org/v1", "kind": "XR",
		"metadata": map[string]any{"name": "xr"},
		"spec": map[string]any{"a": int64(1), "b": int64(2),
			"claimRef": map[string]any{"apiVersion": "example.org/v1", "kind": "Claim", "namespace": "ns", "name": "cm"}},
	}}}
	xr.SetCreationTimestamp(now)
	stored := xr.DeepCopy() // what the API server holds before the sync

	// The API server holds the XR with its own field b; the patch response carries b again
	// (as server-side defaulting or a mutating webhook on the XR would).
	c := &test.MockClient{
		MockGet: test.NewMockGetFn(nil, func(o client.Object) error {
			if u, ok := o.(*composite.Unstructured); ok {
				stored.DeepCopyInto(u)
			}
			return nil
		}),
		MockUpdate:       test.NewMockUpdateFn(nil),
		MockPatch:        test.NewMockPatchFn(nil, func(o client.Object) error { o.(*composite.Unstructured).Object["spec"].(map[string]any)["b"] = int64(2); return nil }),
		MockStatusUpdate: test.NewMockSubResourceUpdateFn(nil),
	}
	s := NewClientSideCompositeSyncer(c, names.NewNameGenerator(c))
	if err := s.Sync(context.Background(), cm, xr); err != nil {
		t.Fatal(err)
	}
	if v, ok := cm.Object["spec"].(map[string]any)["b"]; ok {
		t.Errorf("claim spec got the XR-only user field b=%v: XR spec fields flow into the claim spec", v)
	}
}
