package composite

// Demonstration for finding F3 (property C10): a negative regexp group index
// panics the renderer (index out of range) instead of returning an error.
// Drop into internal/controller/apiextensions/composite/ and run
// `go test -run TestF3 ./internal/controller/apiextensions/composite/`.

import (
	"testing"

	"k8s.io/utils/ptr"

	v1 "github.com/crossplane/crossplane/apis/apiextensions/v1"
)

func TestF3NegativeRegexpGroupIsAnErrorNotAPanic(t *testing.T) {
	tr := v1.Transform{Type: v1.TransformTypeString, String: &v1.StringTransform{
		Type:   v1.StringTransformTypeRegexp,
		Regexp: &v1.StringTransformRegexp{Match: "(a)", Group: ptr.To(-1)},
	}}
	if err := tr.Validate(); err != nil {
		t.Skipf("validation already rejects it: %v", err)
	}
	defer func() {
		if r := recover(); r != nil {
			t.Fatalf("Resolve panicked on group -1: %v", r)
		}
	}()
	if _, err := Resolve(tr, "a"); err == nil {
		t.Errorf("Resolve(group=-1) returned no error")
	}
}
