package composition

// Demonstration for finding F5 (property C12): with the revisions' owner
// references stripped (backup/restore), the revision that matches the
// Composition's current content is renumbered to 1 although a revision numbered
// 2 exists: numbers shrink and the current content no longer has the highest
// number. Drop into internal/controller/apiextensions/composition/ and run
// `go test -run TestF5 ./internal/controller/apiextensions/composition/`.

import (
	"context"
	"testing"

	metav1 "k8s.io/apimachinery/pkg/apis/meta/v1"
	"k8s.io/apimachinery/pkg/types"
	"sigs.k8s.io/controller-runtime/pkg/client"
	"sigs.k8s.io/controller-runtime/pkg/reconcile"

	"github.com/crossplane/crossplane-runtime/pkg/event"
	"github.com/crossplane/crossplane-runtime/pkg/logging"
	"github.com/crossplane/crossplane-runtime/pkg/test"

	v1 "github.com/crossplane/crossplane/apis/apiextensions/v1"
)

func TestF5RestoredRevisionsKeepMonotonicNumbers(t *testing.T) {
	comp := &v1.Composition{ObjectMeta: metav1.ObjectMeta{Name: "comp", UID: types.UID("new-uid")}}
	other := comp.DeepCopy()
	other.Spec.Mode = ptr(v1.CompositionModePipeline)
	revA := NewCompositionRevision(comp, 3) // current content, highest number
	revB := NewCompositionRevision(other, 2)
	revA.SetOwnerReferences(nil) // backup/restore strips owner references
	revB.SetOwnerReferences(nil)

	store := map[string]*v1.CompositionRevision{revA.GetName(): revA, revB.GetName(): revB}
	c := &test.MockClient{
		MockGet: test.NewMockGetFn(nil, func(o client.Object) error { comp.DeepCopyInto(o.(*v1.Composition)); return nil }),
		MockList: test.NewMockListFn(nil, func(o client.ObjectList) error {
			l := o.(*v1.CompositionRevisionList)
			l.Items = []v1.CompositionRevision{*store[revA.GetName()].DeepCopy(), *store[revB.GetName()].DeepCopy()}
			return nil
		}),
		MockUpdate: func(_ context.Context, o client.Object, _ ...client.UpdateOption) error {
			store[o.GetName()] = o.(*v1.CompositionRevision).DeepCopy()
			return nil
		},
		MockCreate: func(_ context.Context, o client.Object, _ ...client.CreateOption) error {
			t.Errorf("unexpected new revision %s", o.GetName())
			return nil
		},
	}
	r := &Reconciler{client: c, log: logging.NewNopLogger(), record: event.NewNopRecorder()}
	if _, err := r.Reconcile(context.Background(), reconcile.Request{NamespacedName: types.NamespacedName{Name: "comp"}}); err != nil {
		t.Fatal(err)
	}
	a, b := store[revA.GetName()].Spec.Revision, store[revB.GetName()].Spec.Revision
	if a < 3 {
		t.Errorf("revision number of the current content shrank from 3 to %d", a)
	}
	if a <= b {
		t.Errorf("current content has revision %d, not the highest (other revision has %d)", a, b)
	}
}

func ptr[T any](v T) *T { return &v }
