#!/bin/bash
# demo.sh <F-id> <pkg-dir-relative-to-repo> [ref]  — runs the finding's demo test in a scratch worktree of /repo at <ref> (default HEAD)
set -eu
export GOFLAGS=-mod=mod GOPROXY=off GOSUMDB=off GOTOOLCHAIN=local GOWORK=off
id=$1; pkg=$2; ref=${3:-HEAD}
wt=$(mktemp -d /tmp/demo.XXXXXX)
git -C /repo worktree add -q --detach "$wt" "$ref"
cp /verif/findings/$id/*_test.go "$wt/$pkg/"
(cd "$wt" && go test -count=1 -run "Test$id" "./$pkg/" 2>&1 | tail -15) || true
git -C /repo worktree remove --force "$wt"
