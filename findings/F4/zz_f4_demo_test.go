package manager

// Demonstration for finding F4 (property C14): after a rollback to the oldest
// digest the history garbage collector deletes the *current* revision.
// Three revisions (numbers 1,2,3), revisionHistoryLimit=1, package source now
// resolves to the revision numbered 1. Drop into internal/controller/pkg/manager/
// and run `go test -run TestF4 ./internal/controller/pkg/manager/`.

import (
	"context"
	"io"
	"testing"

	metav1 "k8s.io/apimachinery/pkg/apis/meta/v1"
	"k8s.io/apimachinery/pkg/types"
	"sigs.k8s.io/controller-runtime/pkg/client"
	"sigs.k8s.io/controller-runtime/pkg/log/zap"
	"sigs.k8s.io/controller-runtime/pkg/reconcile"

	"github.com/crossplane/crossplane-runtime/pkg/event"
	"github.com/crossplane/crossplane-runtime/pkg/logging"
	"github.com/crossplane/crossplane-runtime/pkg/resource"
	"github.com/crossplane/crossplane-runtime/pkg/test"

	v1 "github.com/crossplane/crossplane/apis/pkg/v1"
	"github.com/crossplane/crossplane/internal/xpkg/fake"
)

func TestF4HistoryGCSparesCurrentRevisionAfterRollback(t *testing.T) {
	limit := int64(1)
	var deleted []string
	rec := &Reconciler{
		newPackage:             func() v1.Package { return &v1.Configuration{} },
		newPackageRevision:     func() v1.PackageRevision { return &v1.ConfigurationRevision{} },
		newPackageRevisionList: func() v1.PackageRevisionList { return &v1.ConfigurationRevisionList{} },
		client: resource.ClientApplicator{
			Client: &test.MockClient{
				MockGet: test.NewMockGetFn(nil, func(o client.Object) error {
					p := o.(*v1.Configuration)
					p.SetName("test")
					p.SetGroupVersionKind(v1.ConfigurationGroupVersionKind)
					p.SetRevisionHistoryLimit(&limit)
					return nil
				}),
				MockList: test.NewMockListFn(nil, func(o client.ObjectList) error {
					l := o.(*v1.ConfigurationRevisionList)
					mk := func(name string, n int64, st v1.PackageRevisionDesiredState) v1.ConfigurationRevision {
						return v1.ConfigurationRevision{ObjectMeta: metav1.ObjectMeta{Name: name}, Spec: v1.PackageRevisionSpec{Revision: n, DesiredState: st}}
					}
					// rolled back to the oldest digest: "test-aaa" (revision 1) is current again
					l.Items = []v1.ConfigurationRevision{mk("test-aaa", 1, v1.PackageRevisionInactive), mk("test-bbb", 2, v1.PackageRevisionInactive), mk("test-ccc", 3, v1.PackageRevisionInactive)}
					return nil
				}),
				MockDelete: func(_ context.Context, o client.Object, _ ...client.DeleteOption) error {
					deleted = append(deleted, o.GetName())
					return nil
				},
				MockStatusUpdate: test.NewMockSubResourceUpdateFn(nil),
			},
			Applicator: resource.ApplyFn(func(context.Context, client.Object, ...resource.ApplyOption) error { return nil }),
		},
		pkg:    &MockRevisioner{MockRevision: NewMockRevisionFn("test-aaa", nil)},
		config: &fake.MockConfigStore{MockPullSecretFor: fake.NewMockConfigStorePullSecretForFn("", "", nil)},
		log:    logging.NewLogrLogger(zap.New(zap.WriteTo(io.Discard))),
		record: event.NewNopRecorder(),
	}
	if _, err := rec.Reconcile(context.Background(), reconcile.Request{NamespacedName: types.NamespacedName{Name: "test"}}); err != nil {
		t.Fatal(err)
	}
	for _, d := range deleted {
		if d == "test-aaa" {
			t.Errorf("history GC deleted the current revision %q", d)
		}
	}
	if len(deleted) != 1 || deleted[0] != "test-bbb" {
		t.Errorf("deleted = %v, want exactly [test-bbb] (the oldest non-current revision)", deleted)
	}
}
