package watch

// Demonstration for finding F1 (property C13): GarbageCollectWatchesNow stops
// the XR watch and the CompositionRevision watch. Drop this file into
// internal/controller/apiextensions/composite/watch/ and run
//   go test -run TestF1 ./internal/controller/apiextensions/composite/watch/
// It fails before the fix commit and passes after it.

import (
	"context"
	"testing"

	"k8s.io/apimachinery/pkg/apis/meta/v1/unstructured"
	"k8s.io/apimachinery/pkg/runtime/schema"
	"sigs.k8s.io/controller-runtime/pkg/client"

	"github.com/crossplane/crossplane-runtime/pkg/resource"
	"github.com/crossplane/crossplane-runtime/pkg/test"

	"github.com/crossplane/crossplane/internal/engine"
)

func TestF1CollectorSparesXRAndRevisionWatches(t *testing.T) {
	xrGVK := schema.GroupVersionKind{Group: "example.org", Version: "v1", Kind: "XR"}
	xrWatch := engine.WatchID{Type: engine.WatchTypeCompositeResource, GVK: xrGVK}
	revWatch := engine.WatchID{Type: engine.WatchTypeCompositionRevision, GVK: schema.GroupVersionKind{Group: "apiextensions.crossplane.io", Version: "v1", Kind: "CompositionRevision"}}
	stale := engine.WatchID{Type: engine.WatchTypeComposedResource, GVK: schema.GroupVersionKind{Group: "example.org", Version: "v1", Kind: "Gone"}}
	var stopped []engine.WatchID
	ce := &MockEngine{
		MockGetCached: func() client.Client {
			return &test.MockClient{MockList: test.NewMockListFn(nil, func(obj client.ObjectList) error {
				obj.(*unstructured.UnstructuredList).Items = nil // no XR references anything
				return nil
			})}
		},
		MockGetWatches: func(string) ([]engine.WatchID, error) { return []engine.WatchID{xrWatch, revWatch, stale}, nil },
		MockStopWatches: func(_ context.Context, _ string, ws ...engine.WatchID) (int, error) {
			stopped = append(stopped, ws...)
			return len(ws), nil
		},
	}
	gc := NewGarbageCollector("c", resource.CompositeKind(xrGVK), ce)
	if err := gc.GarbageCollectWatchesNow(context.Background()); err != nil {
		t.Fatal(err)
	}
	for _, w := range stopped {
		if w.Type != engine.WatchTypeComposedResource {
			t.Errorf("collector stopped the %s watch for %s; only composed-resource watches may be collected", w.Type, w.GVK)
		}
	}
	if len(stopped) != 1 || stopped[0] != stale {
		t.Errorf("stopped = %v, want exactly [%v]", stopped, stale)
	}
}
