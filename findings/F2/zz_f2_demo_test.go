package initializer

// Demonstration for finding F2 (property C20): a package whose image
// repository is already installed under a custom object name, with a registry
// host in the reference, is installed a second time instead of being updated
// in place. Drop into internal/initializer/ and run `go test -run TestF2 ./internal/initializer/`.

import (
	"context"
	"testing"

	metav1 "k8s.io/apimachinery/pkg/apis/meta/v1"
	"sigs.k8s.io/controller-runtime/pkg/client"

	"github.com/crossplane/crossplane-runtime/pkg/test"

	v1 "github.com/crossplane/crossplane/apis/pkg/v1"
)

func TestF2ExistingPackageWithRegistryHostIsUpdatedInPlace(t *testing.T) {
	const existingName = "my-provider"
	const installed = "xpkg.upbound.io/crossplane-contrib/provider-x:v1.0.0"
	const requested = "xpkg.upbound.io/crossplane-contrib/provider-x:v1.1.0"
	var applied []string
	kube := &test.MockClient{
		MockList: func(_ context.Context, list client.ObjectList, _ ...client.ListOption) error {
			if l, ok := list.(*v1.ProviderList); ok {
				l.Items = []v1.Provider{{ObjectMeta: metav1.ObjectMeta{Name: existingName}, Spec: v1.ProviderSpec{PackageSpec: v1.PackageSpec{Package: installed}}}}
			}
			return nil
		},
		MockGet: func(_ context.Context, key client.ObjectKey, _ client.Object) error {
			applied = append(applied, key.Name)
			return nil
		},
		MockPatch: func(context.Context, client.Object, client.Patch, ...client.PatchOption) error { return nil },
	}
	if err := NewPackageInstaller([]string{requested}, nil, nil).Run(context.Background(), kube); err != nil {
		t.Fatal(err)
	}
	if len(applied) != 1 || applied[0] != existingName {
		t.Errorf("installer applied package object(s) %v; want exactly [%s] (update the existing package in place)", applied, existingName)
	}
}
