package xpkg

// Demonstration of finding F7 (C15): a package stream whose source fails
// mid-way (registry read error) is teed into the package cache; the parser then
// closes the tee. Before the fix the cache side of the tee saw a clean EOF, so
// FsPackageCache.Store kept the truncated stream as a valid cache entry and the
// next reconcile installed a prefix of the package's objects from the cache.
//
// Place in internal/xpkg and run: go test -run TestF7 ./internal/xpkg/

import (
	"errors"
	"io"
	"testing"
)

type failingReader struct {
	data []byte
	err  error
}

func (f *failingReader) Read(b []byte) (int, error) {
	if len(f.data) == 0 {
		return 0, f.err
	}
	n := copy(b, f.data)
	f.data = f.data[n:]
	return n, nil
}

func (f *failingReader) Close() error { return nil }

func TestF7TruncatedStreamIsNotCachedAsComplete(t *testing.T) {
	errRegistry := errors.New("connection reset by peer")
	src := &failingReader{data: []byte("apiVersion: meta.pkg.crossplane.io/v1\nkind: Provider\n---\napiVersion: apiextensions.k8s.io/v1\nkind: CustomResourceDefinition\n---\n"), err: errRegistry}

	pipeR, pipeW := io.Pipe()
	tee := TeeReadCloser(src, pipeW)

	// the cache side: what FsPackageCache.Store does with the pipe
	done := make(chan error, 1)
	go func() {
		_, err := io.Copy(io.Discard, pipeR)
		done <- err
	}()

	// the parser side: read until the source fails, then close (the parser
	// always closes its reader)
	if _, err := io.ReadAll(tee); !errors.Is(err, errRegistry) {
		t.Fatalf("reading the tee: want the source error, got %v", err)
	}
	_ = tee.Close()

	if err := <-done; err == nil {
		t.Errorf("the cache writer saw a clean end of stream although the source failed mid-way: the truncated package is stored as a complete cache entry")
	}
}
