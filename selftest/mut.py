#!/usr/bin/env python3
"""Mutation self-test of the checker (pure static analysis of source variants).

mutants.json: list of {id, property, file, old, new, expect_rule, note, [count]}.
Each mutant replaces `old` by `new` in <repo>/<file> (must match exactly once unless
"count" is given), is analysed through a go/packages overlay (the tree is not touched),
and the property's check must report a VIOLATION naming expect_rule.
"neutral": true marks behaviour-preserving edits on which the check must stay silent.

usage: mut.py [-p C08] [-i id-substring] [-j N] [--tier quick]
"""
import argparse, json, os, subprocess, sys, tempfile, concurrent.futures as cf

ROOT = os.path.dirname(os.path.abspath(__file__))
VERIF = os.path.dirname(ROOT)
REPO = os.environ.get("VERIF_REPO", "/repo")

def verdict(m, tier, overlay, td):
    evd = os.path.join(td, "ev")
    env = dict(os.environ, GOFLAGS="-mod=mod", GOPROXY="off", GOSUMDB="off", GOTOOLCHAIN="local", GOWORK="off")
    p = subprocess.run([os.environ.get("XPCHECK", os.path.join(VERIF, "bin/xpcheck")), "-property", m["property"], "-tier", tier, "-repo", REPO,
                        "-evidence-dir", evd, "-known", os.path.join(VERIF, "known_findings.json"),
                        "-overlay", overlay], capture_output=True, text=True, env=env)
    out = p.stdout + p.stderr
    viol = [l for l in out.splitlines() if l.startswith("VIOLATION")]
    if any("cannot be loaded" in l for l in viol):
        return m, "nocompile", viol[0][:300], out
    if m.get("neutral"):
        return (m, "ok", "silent", out) if not viol and p.returncode == 0 else (m, "FALSE-ALARM", viol[0][:300] if viol else out[-300:], out)
    hit = [l for l in viol if ("rule=" + m["expect_rule"] + " ") in l or m["expect_rule"] == "*"]
    if hit:
        return m, "killed", hit[0][:260], out
    if viol:
        return m, "killed-other", viol[0][:260], out
    return m, "SURVIVED", out.strip().splitlines()[-1][:200] if out.strip() else "", out

def run_patch(m, tier):
    pf = m["patch"] if os.path.isabs(m["patch"]) else os.path.join(VERIF, m["patch"])
    files = [l[6:].strip() for l in open(pf) if l.startswith("+++ b/")]
    with tempfile.TemporaryDirectory() as td:
        ov = []
        for f in files:
            dst = os.path.join(td, "src", f)
            os.makedirs(os.path.dirname(dst), exist_ok=True)
            if os.path.exists(os.path.join(REPO, f)):
                open(dst, "w").write(open(os.path.join(REPO, f)).read())
            ov.append(f + "=" + dst)
        pr = subprocess.run(["patch", "-p1", "-s", "--no-backup-if-mismatch", "-d", os.path.join(td, "src"), "-i", pf], capture_output=True, text=True)
        if pr.returncode != 0:
            return m, "skipped", "patch does not apply: " + (pr.stdout + pr.stderr)[:120], ""
        return verdict(m, tier, ",".join(ov), td)

def run(m, tier):
    if "patch" in m:
        return run_patch(m, tier)
    path = os.path.join(REPO, m["file"])
    src = open(path).read()
    if "git_ref" in m:
        # whole file as it was at another commit (used to re-create a fixed defect exactly)
        new = subprocess.run(["git", "-C", REPO, "show", m["git_ref"] + ":" + m["file"]], capture_output=True, text=True).stdout
        if not new or new == src:
            return m, "skipped", "git_ref content unavailable or identical", ""
    else:
        n = src.count(m["old"])
        want = m.get("count", 1)
        if n != want:
            return m, "skipped", f"pattern matches {n}x (want {want})", ""
        new = src.replace(m["old"], m["new"])
    with tempfile.TemporaryDirectory() as td:
        f = os.path.join(td, os.path.basename(m["file"]))
        open(f, "w").write(new)
        evd = os.path.join(td, "ev")
        env = dict(os.environ, GOFLAGS="-mod=mod", GOPROXY="off", GOSUMDB="off", GOTOOLCHAIN="local", GOWORK="off")
        p = subprocess.run([os.environ.get("XPCHECK", os.path.join(VERIF, "bin/xpcheck")), "-property", m["property"], "-tier", tier, "-repo", REPO,
                            "-evidence-dir", evd, "-known", os.path.join(VERIF, "known_findings.json"),
                            "-overlay", f'{m["file"]}={f}'], capture_output=True, text=True, env=env)
    out = p.stdout + p.stderr
    viol = [l for l in out.splitlines() if l.startswith("VIOLATION")]
    if any("cannot be loaded" in l for l in viol):
        return m, "nocompile", viol[0][:300], out
    if m.get("neutral"):
        return (m, "ok", "silent", out) if not viol and p.returncode == 0 else (m, "FALSE-ALARM", viol[0][:300] if viol else out[-300:], out)
    hit = [l for l in viol if ("rule=" + m["expect_rule"] + " ") in l or m["expect_rule"] == "*"]
    if hit:
        return m, "killed", hit[0][:260], out
    if viol:
        return m, "killed-other", viol[0][:260], out
    return m, "SURVIVED", out.strip().splitlines()[-1][:200] if out.strip() else "", out

def main():
    ap = argparse.ArgumentParser()
    ap.add_argument("-p", "--property")
    ap.add_argument("-i", "--id")
    ap.add_argument("-j", type=int, default=6)
    ap.add_argument("--tier", default="quick")
    ap.add_argument("-v", action="store_true")
    ap.add_argument("--file", default=os.path.join(ROOT, "mutants.json"))
    a = ap.parse_args()
    ms = json.load(open(a.file))
    if a.property:
        ms = [m for m in ms if m["property"] in a.property.split(",")]
    if a.id:
        ms = [m for m in ms if a.id in m["id"]]
    bad = 0
    with cf.ThreadPoolExecutor(a.j) as ex:
        for m, st, detail, out in ex.map(lambda m: run(m, a.tier), ms):
            print(f'{st:12} {m["property"]} {m["id"]:40} {m.get("expect_rule","-"):8} {detail}')
            if a.v:
                print(out)
            if st in ("SURVIVED", "FALSE-ALARM", "nocompile"):
                bad += 1
    sys.exit(1 if bad else 0)

if __name__ == "__main__":
    main()
