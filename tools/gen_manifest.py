#!/usr/bin/env python3
"""Generates /verif/MANIFEST.json from the table below (keeps it schema-valid)."""
import json, os, sys
HERE = os.path.dirname(os.path.abspath(__file__))
VERIF = os.path.dirname(HERE)
sys.path.insert(0, HERE)
from manifest_table import CHECKS, NOT_APPLICABLE

BASE = json.load(open("/root/.vp/BASELINE.json"))
setup = "cd /verif/checker && GOFLAGS=-mod=mod GOPROXY=off GOSUMDB=off GOTOOLCHAIN=local GOWORK=off go build -o /verif/bin/xpcheck ./cmd/xpcheck"
m = {
 "version": 1,
 "setup_cmd": setup,
 "hooks": {
  "guard": "verif",
  "enable": "none needed: the analysis reads /repo's source (go/packages + go/ssa); no hook is compiled into crossplane",
  "baseline_off_cmd": BASE["cmd"],
  "source_commits": [],
  "add_only": True,
 },
 "engines": [
  {"name": "xpcheck", "path": "/verif/checker", "serves_properties": sorted(CHECKS),
   "kind_free_text": "repository-specific static analyser on go/packages + go/ssa: source-to-source normaliser (inlines helpers unknown to the rules), path-sensitive gate-crossing reachability (typestate) over CFG edges of error-returning calls and guards with contextual success edges, SSA provenance slices through copies, API effect inventory, lockset/lock-order, constant-table agreement"},
 ],
 "checks": [],
 "not_applicable": [{"property_id": k, "reason": v} for k, v in sorted(NOT_APPLICABLE.items())],
 "notes": "All claims are at level 'other': structural necessary conditions of each property decided for every CFG path / call site / table member of the current tree; the behavioural remainder is listed per check in level_note and in evidence.coverage.not_decided. See DESIGN.md.",
}
COMMON = (" Every check also carries rule R<n>.0 over the functions its own rules resolve as anchors: once the error of a step was tested non-nil, a nil-error return reachable only through that failure must lie behind a benign-error predicate of that error (IsConflict, IsNotFound, …) — a failed step of the mechanism is never turned into success (DESIGN.md §18.3); since round 5 the rule also covers what those functions call inside crossplane four levels down (static callees and the crossplane implementations of invoked interface methods), requires that the non-scalar results of a step are used only where its error is known to be nil (or handed back together with it), that an error which is only compared with nil is not followed by a success return, that the long-lived objects of the mechanism write no state of their own beyond what is tabled (DESIGN.md §21), that a conflict is never passed to an error filter, that a function which tests the failure of its steps can itself return one, and that an error produced in a loop is looked at before the next iteration overwrites it (DESIGN.md §23); since round 9 also that a conflict is not passed to an error filter through a local predicate either, and that an error the source assigns to a named variable is read before that variable is assigned again (DESIGN.md §27)."
          " The tree is first put into a normal form, source to source and meaning-preserving, the tree itself untouched (DESIGN.md §14.1, §18.1): helpers the reference list does not know (also generic ones, local closures, methods reached through method-value locals) are inlined into their callers, loops over local literal tables are written out row by row, reads of immutable package-level lookup tables become key comparisons, local structs that are only used field by field become one local per field; a stage whose output does not type-check is discarded. "
          "Every reachability query is path-sensitive in the small sense of DESIGN.md §14.2/§18.2 (constant flags, nil-ness of result temporaries, re-tested values, pure error predicates, phis refined by feasibility), "
          "so that the verdict does not depend on how the code is split into functions, tables or carrier structs, or how a condition is spelled.")
ADDENDA = {
 "C01": " Round 3: (R1.8) RenderComposedResourceMetadata stamps the template-name annotation on every path that names the resource, and the P&T composer renders it after the from-XR patches.",
 "C02": " Round 3: an ApplyOption constructed in this repository that performs a write must be ordered after the controller guard in the option list.",
 "C03": " Round 3: (R3.8) in the P&T composer the annotation the associator keys on is rendered after the from-XR patches.",
 "C05": " Round 3: (R5.7) the explicit XR readiness is read once, after the pipeline, from the final desired composite; every failure edge of an apply that continues records the resource as unsynced.",
 "C07": " Round 3: under the Automatic policy the claim's revision reference is explicitly overwritten with the XR's, and no filter-table entry is removed specifically on the Automatic edge.",
 "C09": " Round 3: (R9.8) in the P&T composer a failed apply that does not abort clears the slot the observe/extract loop reads.",
 "C10": " Round 3: every entry of the conversions table returns the Go type its target IO type stands for and asserts the Go type of its source IO type.",
 "C11": " Round 3: every admitting return of the XRD webhook's ValidateCreate/ValidateUpdate lies beyond the success edge of the XRD's own validation.",
 "C12": " Round 3: the hash compared with a revision's label is Composition.Hash() of the object read in this reconcile (no remembered value), and LatestRevision scans every revision deciding only on IsControlledBy and the revision number.",
 "C13": " Round 3: (R13.10) every call into the wrapped cache of InformerTrackingCache is made with its mutex held on all paths; in Stop no source is stopped after cancel().",
 "C15": " Round 3: (R15.6) the version checked against constraints is the build version string itself and the object scheme registers only the package API groups; (R15.7) the tee that feeds the cache propagates a failed source read to the cache writer (finding F7, fixed by a911ba8).",
 "C17": " Round 3: (R17.8) AddOrUpdateNodes stores every supplied node; Sort skips a node only when the map visit() marks says it was visited.",
 "C18": " Round 3: (R18.8) the validator returns a verdict only beyond the unfiltered success edge of reading the allow-list ClusterRole; binding subjects are compared with a symmetric whole-value equality.",
 "C19": " Round 3: a refused delete returns without recording the attempt only over an equality of the recorded value with this attempt's policy.",
}
ADDENDA5 = {
 "C01": " Round 5: the stamp itself (SetCompositionResourceName) writes the supplied name on every path.",
 "C02": " Round 5: (R2.9) the field manager name of composed resources hashes the XR's name and API group.",
 "C03": " Round 5: no success return of the garbage collector precedes the scan of observed unless observed is empty; R3.0 reaches the function runners behind the FunctionRunner interface.",
 "C04": " Round 5: (R4.7) observed connection details are read from the namespace/name the resource's own secret reference gives.",
 "C05": " Round 5: (R5.8) default readiness is the conjunction of the readiness checks.",
 "C06": " Round 5: (R6.6) the name generator hands out a name only on the IsNotFound edge of its probe.",
 "C07": " Round 5: after an XR-owned value was put on the claim no success return is reached without a successful client.Update of the claim.",
 "C08": " Round 5: (R8.7/R8.8) the XR is written only after the claim durably carries its reference.",
 "C12": " Round 5: (R12.6) every success return lies behind the List of the stored revisions.",
 "C14": " Round 5: (R14.6) revisions are written with the patching applicator (resourceVersion of the listed copy).",
 "C15": " Round 5: (R15.8) the converters of older package metadata assign every shared field.",
 "C16": " Round 5: the parent-package label written on a revision is the package's name itself.",
 "C17": " Round 5: the versions scanned are the result of fetcher.Tags made in the same call.",
 "C18": " Round 5: the allow tree consulted is built in the same call from the ClusterRole read in that call.",
 "C20": " Round 5: (R20.6) the index key is derived from the parsed reference's own Identifier()/Context().",
}
ADDENDA6 = {
 "C01": " Round 6: (R1.9) the 'found' flags of the managed-fields upgrade are sticky (independent of the order of the managers).",
 "C04": " Round 6: the loop over a step's credentials is left early only with an error.",
 "C07": " Round 6: under Automatic the XR's revision reaches the claim whether or not the claim already has one.",
 "C09": " Round 6: the no-op comparison compares current with desired; ExtractConnection reads the composed resource of the iteration.",
 "C10": " Round 6: (R10.8) numeric ⇄ string conversions use full width and base 10.",
 "C13": " Round 6: the write-locked re-check of StartWatches leaves a watch alone only when it exists and its informer is active; the running goroutine stops a controller by name only after a failed run.",
 "C15": " Round 6: (R15.9) accessors of the three revision kinds return the field they are named after.",
 "C16": " Round 6: every write inside create()/update() passes on the caller's options.",
 "C17": " Round 6: no version is appended after the sort; the loop over direct dependencies is left early only with an error.",
 "C20": " Round 6: the loops that index existing packages are left early only with an error.",
}
ADDENDA7 = {
 "C02": " Round 7: the propagator chain is under R2.0 (a refusal must surface).",
 "C03": " Round 7: (R3.9) a still-desired resource never keeps a stale composition-resource-name.",
 "C04": " Round 7: (R4.8) referenced composed resources are read by the namespace and name of their reference.",
 "C07": " Round 7: the options of merge() set their own field only.",
 "C08": " Round 7: (R8.9) the two XRD controllers hold distinct finalizers.",
 "C09": " Round 7: (R9.9) a FromFieldPath detail has a value only after a successful read of the field.",
 "C11": " Round 7: parseSchema is a pure decode of the author's schema.",
 "C12": " Round 7: the labels narrowing the revisions are those of the compositionRevisionSelector.",
 "C14": " Round 7: (R14.7) the revision-list accessors are complete projections.",
 "C15": " Round 7: (R15.10) only io.EOF is a clean end of the package stream; a verification config counts whether or not it is complete.",
 "C17": " Round 7: (R17.10) LockPackage.Neighbors is a complete projection.",
 "C20": " Round 7: the identifier is removed as a suffix; (R20.7) certificates are issued with the signer's certificate as parent.",
}
ADDENDA8 = {
 "C02": " Round 8: the observer's controller test examines the object as last read.",
 "C03": " Round 8: an anonymous P&T template is stamped with the empty name.",
 "C04": " Round 8: the context is refreshed on every way into the next requirements round.",
 "C05": " Round 8: an empty list of readiness checks is decided by the Ready condition.",
 "C09": " Round 8: the allow map is filled before it is consulted.",
 "C11": " Round 8: (R11.6) the author's metadata.name limit is honoured whenever set and stricter.",
 "C13": " Round 8: StopWatches forgets a watch only after its source stopped.",
 "C16": " Round 8: every write of update() comes after the package owner reference was looked up.",
 "C19": " Round 8: the Usage's finalizer is removed after the Usages of the resource were counted.",
 "C20": " Round 8: the CA injection loop runs for webhook configurations of any name.",
}
ADDENDA9 = {
 "C20": " Round 9: (R20.1) the listings that fill the installed-package index tolerate NotFound only.",
 "C04": " Round 9: (R4.2) the read of a Secret feeding req.Credentials tolerates no error class and no credential is stored on its failure edges.",
 "C07": " Round 9: PatchingManagedFieldsUpgrader.Upgrade (the step that hands the claim-derived fields to the server-side field owner) is an anchor under R7.0.",
 "C08": " Round 9: (R8.5) the deletion path of a Usage skips Get(using) only on 'spec.by is nil' or 'the composite label is empty' (tabled conditions).",
 "C15": " Round 9: FsPackageCache.Store reads the error of io.Copy before the error variable is assigned again (R15.0, assigned errors are read).",
 "C17": " Round 9: an installed version that does not parse as a semantic version is an error of Resolve, not a skipped dependency (the probe exemption of semver.NewVersion is limited to the two tag scans).",
}
for pid in sorted(CHECKS):
    c = dict(CHECKS[pid])
    c["text"] = c["text"] + ADDENDA.get(pid, "") + ADDENDA5.get(pid, "") + ADDENDA6.get(pid, "") + ADDENDA7.get(pid, "") + ADDENDA8.get(pid, "") + ADDENDA9.get(pid, "") + COMMON
    c["technique"] = c["technique"] + "; path-sensitive gate-crossing search over the inlined normal form"
    m["checks"].append({
     "property_id": pid,
     "quick_cmd": f"./run.sh {pid} quick",
     "thorough_cmd": f"./run.sh {pid} thorough",
     "evidence_file": f"/verif/evidence/{pid}.json",
     "replay_cmd_template": "./run.sh --replay {path}",
     "engine": "xpcheck",
     "level_claimed": {"category": "other", "text": c["text"], "design_ref": c.get("design_ref", f"DESIGN.md §2 {pid}")},
     "level_note": c["note"],
     "technique": c["technique"],
    })
json.dump(m, open(os.path.join(VERIF, "MANIFEST.json"), "w"), indent=1)
try:
    import jsonschema
except ImportError:
    jsonschema = None
if jsonschema: jsonschema.validate(m, json.load(open("/root/.vp/MANIFEST.schema.json")))
print("MANIFEST.json written:", len(m["checks"]), "checks,", len(m["not_applicable"]), "not applicable")
