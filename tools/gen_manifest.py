#!/usr/bin/env python3
"""Generates /verif/MANIFEST.json from the table below (keeps it schema-valid)."""
import json, os, sys
HERE = os.path.dirname(os.path.abspath(__file__))
VERIF = os.path.dirname(HERE)
sys.path.insert(0, HERE)
from manifest_table import CHECKS, NOT_APPLICABLE

BASE = json.load(open("/root/.vp/BASELINE.json"))
setup = "cd /verif/checker && GOFLAGS=-mod=mod GOPROXY=off GOSUMDB=off GOTOOLCHAIN=local GOWORK=off go build -o /verif/bin/xpcheck ./cmd/xpcheck"
m = {
 "version": 1,
 "setup_cmd": setup,
 "hooks": {
  "guard": "verif",
  "enable": "none needed: the analysis reads /repo's source (go/packages + go/ssa); no hook is compiled into crossplane",
  "baseline_off_cmd": BASE["cmd"],
  "source_commits": [],
  "add_only": True,
 },
 "engines": [
  {"name": "xpcheck", "path": "/verif/checker", "serves_properties": sorted(CHECKS),
   "kind_free_text": "repository-specific static analyser on go/ssa: gate-crossing reachability (typestate) over CFG edges of error-returning calls and guards, SSA provenance slices, API effect inventory, lockset/lock-order, constant-table agreement"},
 ],
 "checks": [],
 "not_applicable": [{"property_id": k, "reason": v} for k, v in sorted(NOT_APPLICABLE.items())],
 "notes": "All claims are at level 'other': structural necessary conditions of each property decided for every CFG path / call site / table member of the current tree; the behavioural remainder is listed per check in level_note and in evidence.coverage.not_decided. See DESIGN.md.",
}
for pid in sorted(CHECKS):
    c = CHECKS[pid]
    m["checks"].append({
     "property_id": pid,
     "quick_cmd": f"./run.sh {pid} quick",
     "thorough_cmd": f"./run.sh {pid} thorough",
     "evidence_file": f"/verif/evidence/{pid}.json",
     "replay_cmd_template": "./run.sh --replay {path}",
     "engine": "xpcheck",
     "level_claimed": {"category": "other", "text": c["text"], "design_ref": c.get("design_ref", f"DESIGN.md §2 {pid}")},
     "level_note": c["note"],
     "technique": c["technique"],
    })
json.dump(m, open(os.path.join(VERIF, "MANIFEST.json"), "w"), indent=1)
try:
    import jsonschema
except ImportError:
    jsonschema = None
if jsonschema: jsonschema.validate(m, json.load(open("/root/.vp/MANIFEST.schema.json")))
print("MANIFEST.json written:", len(m["checks"]), "checks,", len(m["not_applicable"]), "not applicable")
