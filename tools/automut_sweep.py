#!/usr/bin/env python3
"""Development sweep: first-order mutants of the anchored files (bin/automut) ->
(1) which still compile and pass the mutated package's own unit tests (go test -overlay; /repo is never modified),
(2) which of those the checks of the anchoring properties report.
Test-surviving, unreported mutants are the candidates for triage (equivalent / outside the property / a gap).

usage: automut_sweep.py test  [-j N] [--ops a,b] [--files substr]   # phase 1, resumable
       automut_sweep.py check [-j N]                                # phase 2, resumable
       automut_sweep.py report
Scratch under $AUTOMUT_DIR (default /var/tmp/automut); nothing here is part of any verdict.
"""
import argparse, json, os, subprocess, sys, tempfile, concurrent.futures as cf, collections, threading

VERIF = os.path.dirname(os.path.dirname(os.path.abspath(__file__)))
REPO = os.environ.get("VERIF_REPO", "/repo")
D = os.environ.get("AUTOMUT_DIR", "/var/tmp/automut")
ENV = dict(os.environ, GOFLAGS="-mod=mod", GOPROXY="off", GOSUMDB="off", GOTOOLCHAIN="local", GOWORK="off")
lock = threading.Lock()

def load_mutants():
    p = os.path.join(D, "mutants.jsonl")
    if not os.path.exists(p):
        os.makedirs(D, exist_ok=True)
        with open(p, "w") as f:
            subprocess.check_call([os.path.join(VERIF, "bin/automut"), "-repo", REPO, "-props", os.path.join(VERIF, "properties.jsonl")], stdout=f)
    return [json.loads(l) for l in open(p)]

def load_results(name):
    p = os.path.join(D, name)
    r = {}
    if os.path.exists(p):
        for l in open(p):
            try:
                x = json.loads(l); r[x["id"]] = x
            except Exception:
                pass
    return r

def mutated(m):
    src = open(os.path.join(REPO, m["file"]), "rb").read()
    assert src[m["start"]:m["end"]].decode() == m["old"], m["id"]
    return src[:m["start"]] + m["new"].encode() + src[m["end"]:]

def test_one(m):
    with tempfile.TemporaryDirectory(dir=D) as td:
        f = os.path.join(td, os.path.basename(m["file"]))
        open(f, "wb").write(mutated(m))
        ov = os.path.join(td, "overlay.json")
        json.dump({"Replace": {os.path.join(REPO, m["file"]): f}}, open(ov, "w"))
        pkg = "./" + os.path.dirname(m["file"]) + "/"
        try:
            p = subprocess.run(["go", "test", "-overlay", ov, "-count=1", "-timeout", "180s", pkg], cwd=REPO, env=ENV, capture_output=True, text=True, timeout=400)
        except subprocess.TimeoutExpired:
            return "timeout", ""
        out = p.stdout + p.stderr
        if p.returncode == 0:
            return "survived", ""
        if "[build failed]" in out or "[setup failed]" in out:
            return "nocompile", out[-300:]
        return "killed", "\n".join(l for l in out.splitlines() if l.startswith("--- FAIL") or "panic:" in l)[:300]

def check_one(m):
    with tempfile.TemporaryDirectory(dir=D) as td:
        f = os.path.join(td, os.path.basename(m["file"]))
        open(f, "wb").write(mutated(m))
        p = subprocess.run([os.environ.get("XPCHECK", os.path.join(VERIF, "bin/xpcheck")), "-property", ",".join(m["props"]), "-tier", "quick", "-repo", REPO,
                            "-evidence-dir", os.path.join(td, "ev"), "-known", os.path.join(VERIF, "known_findings.json"),
                            "-overlay", f'{m["file"]}={f}'], capture_output=True, text=True, env=ENV)
        out = p.stdout + p.stderr
        viol = [l for l in out.splitlines() if l.startswith("VIOLATION")]
        rules = sorted({(l.split("property=")[1].split()[0] + ":" + (l.split(" rule=")[1].split()[0] if " rule=" in l else "?")) for l in viol})
        if p.returncode != 0 and not viol:
            return "error", out[-300:]
        return ("detected" if viol else "undetected"), " ".join(rules)

def run_phase(items, fn, outname, jobs):
    done = 0
    with open(os.path.join(D, outname), "a") as outf, cf.ThreadPoolExecutor(jobs) as ex:
        futs = {ex.submit(fn, m): m for m in items}
        for fu in cf.as_completed(futs):
            m = futs[fu]
            try:
                st, det = fu.result()
            except Exception as e:
                st, det = "error", repr(e)[:200]
            with lock:
                outf.write(json.dumps({"id": m["id"], "status": st, "detail": det}) + "\n"); outf.flush()
            done += 1
            if done % 50 == 0:
                print(f"{outname}: {done}/{len(items)}", flush=True)

def main():
    ap = argparse.ArgumentParser()
    ap.add_argument("phase", choices=["test", "check", "report"])
    ap.add_argument("-j", type=int, default=8)
    ap.add_argument("--ops", default="")
    ap.add_argument("--files", default="")
    a = ap.parse_args()
    ms = load_mutants()
    if a.ops:
        ms = [m for m in ms if m["op"] in a.ops.split(",")]
    if a.files:
        ms = [m for m in ms if a.files in m["file"]]
    tr = load_results("test.jsonl")
    if a.phase == "test":
        todo = [m for m in ms if m["id"] not in tr]
        print("to test:", len(todo), flush=True)
        run_phase(todo, test_one, "test.jsonl", a.j)
    elif a.phase == "check":
        outn = os.environ.get("CHECK_OUT", "check.jsonl")
        cr = load_results(outn)
        todo = [m for m in ms if tr.get(m["id"], {}).get("status") == "survived" and m["id"] not in cr]
        if os.environ.get("ONLY_UNDETECTED"):
            prev = load_results("check.jsonl")
            todo = [m for m in todo if prev.get(m["id"], {}).get("status") == "undetected"]
        print("to check:", len(todo), flush=True)
        run_phase(todo, check_one, outn, a.j)
    else:
        cr = load_results(os.environ.get("CHECK_OUT", "check.jsonl"))
        c = collections.Counter(tr[m["id"]]["status"] if m["id"] in tr else "untested" for m in ms)
        print("test phase:", dict(c))
        c2 = collections.Counter(cr[m["id"]]["status"] for m in ms if m["id"] in cr)
        print("check phase (test survivors):", dict(c2))
        byf = collections.defaultdict(list)
        for m in ms:
            if cr.get(m["id"], {}).get("status") == "undetected":
                byf[(m["file"], m["func"])].append(m)
        for (f, fn), l in sorted(byf.items()):
            print(f"\n## {f} {fn} ({','.join(l[0]['props'])})")
            for m in l:
                print(f"  {m['id']}  L{m['line']} {m['op']}: {m['old'][:90]!r} -> {m['new'][:60]!r}")

if __name__ == "__main__":
    main()
