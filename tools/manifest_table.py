PENDING = "check not built yet in this round (planned in DESIGN.md §2); not claimed until its rules run clean on the unchanged tree"
CHECKS = {
 "C16": {
  "text": "Static analysis of the establisher: establish is reached only over validate's success edge; every write validate can make carries client.DryRunAll and none of establish's does; create calls are control-dependent on control==true and the not-found edge; the inactive path adds only a plain owner reference; ReleaseObjects only clears the controller flag. Decides the code shape that makes all-or-nothing and role-respect possible, not the runtime outcome of the two phases.",
  "note": "Assumes DryRunAll writes have no side effect and a dry-run accepted by the API server predicts the real write. Not decided: atomicity across API calls in the second phase, owner-reference histories across upgrade/rollback sequences.",
  "technique": "static analysis: gate-crossing reachability on go/ssa CFG, option provenance (DryRunAll, ptr.To(false)), who-may-call inventory for client.Create",
 },
 "C18": {
  "text": "Static analysis of the RBAC manager: no role Apply without an acknowledged validation and the empty-rejected edge; family merge only on Differs==false and Differs fails closed; permission requests flow only into the system role; the baseline literal is within the stated set; every PolicyRule literal is built from CRD references / XRD names plus constant suffixes; the allow tree answers true only through segment-or-wildcard children and every expanded request is checked. Decides rule provenance and gating, not the agreement of the tree with Kubernetes' covers relation.",
  "note": "Assumes rbacv1.PolicyRule semantics and that the Applicator enforces MustBeControllableBy. Not decided: the allow tree versus Kubernetes' own rule-covering relation for all rule pairs, registry reference parsing semantics.",
  "technique": "static analysis: gate-crossing reachability on go/ssa CFG, SSA provenance of PolicyRule literals, constant-table inclusion, loop-exit analysis",
 },
 "C08": {
  "text": "Static typestate analysis over every CFG path of the five teardown reconcilers and engine.Stop: finalizer removal, CRD delete and controller stop are each gated by the success edges / guards the dependency order needs. Decides the ordering discipline inside one reconcile, not the cross-controller interleavings.",
  "note": "Assumes API calls are atomic and acknowledged deletes take effect; interface calls resolve to the production implementations. Not decided: joint ordering across controllers and Kubernetes GC, third-party finalizer removal, multi-reconcile fault sequences.",
  "technique": "static analysis: gate-crossing reachability (typestate) on go/ssa CFG with error-edge and guard-edge events, sibling agreement definition/offered",
 },
}
NOT_APPLICABLE = {f"C{n:02d}": PENDING for n in range(1, 21) if f"C{n:02d}" not in CHECKS}
