PENDING = "check not built yet in this round (planned in DESIGN.md §2); not claimed until its rules run clean on the unchanged tree"
CHECKS = {
 "C08": {
  "text": "Static typestate analysis over every CFG path of the five teardown reconcilers and engine.Stop: finalizer removal, CRD delete and controller stop are each gated by the success edges / guards the dependency order needs. Decides the ordering discipline inside one reconcile, not the cross-controller interleavings.",
  "note": "Assumes API calls are atomic and acknowledged deletes take effect; interface calls resolve to the production implementations. Not decided: joint ordering across controllers and Kubernetes GC, third-party finalizer removal, multi-reconcile fault sequences.",
  "technique": "static analysis: gate-crossing reachability (typestate) on go/ssa CFG with error-edge and guard-edge events, sibling agreement definition/offered",
 },
}
NOT_APPLICABLE = {f"C{n:02d}": PENDING for n in range(1, 21) if f"C{n:02d}" not in CHECKS}
