PENDING = "check not built yet in this round (planned in DESIGN.md §2); not claimed until its rules run clean on the unchanged tree"
CHECKS = {
 "C16": {
  "text": "Static analysis of the establisher: establish is reached only over validate's success edge; every write validate can make carries client.DryRunAll and none of establish's does; create calls are control-dependent on control==true and the not-found edge; the inactive path adds only a plain owner reference; ReleaseObjects only clears the controller flag. Decides the code shape that makes all-or-nothing and role-respect possible, not the runtime outcome of the two phases.",
  "note": "Assumes DryRunAll writes have no side effect and a dry-run accepted by the API server predicts the real write. Not decided: atomicity across API calls in the second phase, owner-reference histories across upgrade/rollback sequences.",
  "technique": "static analysis: gate-crossing reachability on go/ssa CFG, option provenance (DryRunAll, ptr.To(false)), who-may-call inventory for client.Create",
 },
 "C17": {
  "text": "Static analysis of the resolver, the dependency manager and both DAGs: package writes need ok(dag.Init) then ok(dag.Sort); nothing is created on the empty-version edge; a version is returned/remembered only on the true edge of a constraint Check of that version (or while the all-parents-valid flag is set), or is the pinned digest; lists are sorted ascending, the install scan has no early exit, the update scan returns the first not-older match; Resolve succeeds only past the no-missing and no-invalid edges; both DAGs mark the DFS stack, fail on back edges and missing nodes; the upgrading DAG reads parent constraints after adding the edge. Decides gating and selection idioms, not semver semantics.",
  "note": "Assumes sort.Sort(semver.Collection) is ascending and Constraints.Check is the oracle. Not decided: semver semantics, graph algorithms over arbitrary graphs, registry tag lists.",
  "technique": "static analysis: gate-crossing reachability, flag-phi analysis, loop early-exit analysis, sibling agreement over the two DAG implementations",
 },
 "C19": {
  "text": "Static analysis across code and the shipped YAML: every Usage lookup and the registered indexer share key and value function (group-based), the indexer omits only Usages without a named resource; the webhook configuration's objectSelector equals the label key/value the reconciler writes, covers DELETE with failurePolicy Fail on the registered path; the webhook allows only on zero usages after ok(List); Available needs the acknowledged in-use label (or the label already equal to the selected value); the label is removed only on an edge false for every count >= 2; owner reference persisted before Available and preserved by RespectOwnerRefs in the P&T apply. Decides agreement and gating, not admission plumbing or timing.",
  "note": "Assumes the shipped webhook configuration is the installed one. Not decided: 'every delete refused' across time/API versions (cache lag), interleavings.",
  "technique": "static analysis: cross-artifact constant agreement (Go constants vs YAML), gate-crossing reachability, length-comparison evaluation over all counts",
 },
 "C20": {
  "text": "Static analysis of the initialisers: the installed-package index is built and looked up with the same key function and parse options and the existing name is reused; Generate and secret writes are unreachable from the has-material edges, the complete CA is loaded, Create/Update follow the found flag on flag-consistent paths, write errors are unfiltered and the new CA is used only after the acknowledged write; leaf certificates are signed by this run's CA with the configured DNS names; default objects use create-if-absent; CA bundles are injected from the TLS secret before Apply and an empty tls.crt is refused. Decides these shapes, not equality of cluster state after n runs.",
  "note": "Assumes APIPatchingApplicator.Apply is idempotent. Not decided: state equality after n runs, x509 validity, partial-secret recovery. Finding F2 (fixed by aeb5e6b) is re-derived by R20.1 on the pre-fix code.",
  "technique": "static analysis: key-function agreement by SSA provenance, must-not-reach from material edges, feasible-path enumeration with flag propagation, error-filter inspection",
 },
 "C18": {
  "text": "Static analysis of the RBAC manager: no role Apply without an acknowledged validation and the empty-rejected edge; family merge only on Differs==false and Differs fails closed; permission requests flow only into the system role; the baseline literal is within the stated set; every PolicyRule literal is built from CRD references / XRD names plus constant suffixes; the allow tree answers true only through segment-or-wildcard children and every expanded request is checked. Decides rule provenance and gating, not the agreement of the tree with Kubernetes' covers relation.",
  "note": "Assumes rbacv1.PolicyRule semantics and that the Applicator enforces MustBeControllableBy. Not decided: the allow tree versus Kubernetes' own rule-covering relation for all rule pairs, registry reference parsing semantics.",
  "technique": "static analysis: gate-crossing reachability on go/ssa CFG, SSA provenance of PolicyRule literals, constant-table inclusion, loop-exit analysis",
 },
 "C01": {
  "text": "Static analysis of both composers: create-capable writes of composed resources are reached only over the success edge of the XR write that persists spec.resourceRefs, that write only over the success edge of garbage collection; names are allocated/inherited before objects enter the collection that is referenced and applied; the reference array is sorted; observation skips a referenced resource only for the three stated reasons. Decides the ordering/dataflow discipline that preserves 'live and controlled => referenced' at every instruction boundary, not the behaviour of the API server or of later reconciles.",
  "note": "Assumes each API call is atomic and acknowledged writes are durable. Not decided: crash during a call, cache staleness, generated-name collisions, quiescence beyond the sorted array, anonymous P&T templates.",
  "technique": "static analysis: gate-crossing reachability (typestate) on go/ssa CFG, SSA provenance, loop-bypass analysis with a whitelist of skip edges",
 },
 "C02": {
  "text": "Static analysis of every write site in the anchored controllers: each Applicator.Apply of a child object carries a controller guard keyed on the owner's UID (exceptions by symbol with reason); GC, observation, CRD teardown, the establisher's take-over and the claim secret copy are reachable only over the edges of an owner test on the very object written. Decides guard presence on all paths, not the API server's own rejection of a second controller.",
  "note": "Assumes the runtime Applicator honours MustBeControllableBy and AddControllerReference refuses a different controller. Not decided: server-side-apply conflict behaviour, byte-for-byte equality of untouched objects, package runtime objects (outside the enumerated placements).",
  "technique": "static analysis: API effect inventory + option provenance, gate-crossing reachability on go/ssa CFG, escape check of the validated snapshot",
 },
 "C03": {
  "text": "Static analysis: in FunctionComposer.Compose no API effect can precede a RunFunction call or sit in the pipeline loop; the severity switch is exhaustive and its FATAL arm returns an error; the requirements loop is constant-bounded, returns a response only on the equality or fatal edge and fails closed; both garbage collectors delete only what the absent-from-desired / no-template lookup edge selects, with no early success or skip in the delete loop; the two collectors are the only delete sites. Decides these shapes for every path, not what functions or the API server do.",
  "note": "Assumes FunctionRunner implementations and client.Reader calls do not write. Not decided: that observed equals 'previously composed by this XR', transient API-server deletes.",
  "technique": "static analysis: must-not-precede reachability, loop early-exit / bypass analysis, enum exhaustiveness from go/types constants, who-may-call inventory",
 },
 "C05": {
  "text": "Static analysis: function-supplied and stored conditions reach SetConditions only over IsSystemConditionType==false; a rejected (invalid) apply that continues is recorded without Synced=true; unready/unsynced resources are collected completely; updateXRConditions is decided path by path (16 loop-free paths, phi/slot definitions resolved along each, the branch on readyCond.Status pruned with the constructors' constant Status) so that a Status-True Ready/Synced reaches SetConditions only under the stated conditions; claim Available needs ok(Sync) and the XR-Ready edge. Decides the shape and the finite path table, not readiness-check evaluation.",
  "note": "Assumes xpv1 constructors return the constant Status in their body. Not decided: readiness checks, transient conditions written through desired XR status, truth of per-resource flags beyond the invalid-apply arm.",
  "technique": "static analysis: gate-crossing reachability, path enumeration with reaching-definition resolution and constant propagation of condition Status",
 },
 "C04": {
  "text": "Static analysis of the request-threading dataflow: Observed is one AsState value computed before the loop; Desired/Context are loop-carried phis defined only by a fresh empty value and this step's response accessor (no self-carry); the final state is the carried value; name/input/credentials derive from the same pipeline element; every condition and non-fatal result is appended without skip and carried by success and fatal returns; each requirements round re-creates ExtraResources and fills it from Fetch of the latest selectors, stopping only on whole-value equality; the v1 and v1beta1 message closures have identical protobuf tags and enum values; the connection cache returns a connection only for the Active revision's endpoint, under connsMx. Decides shapes and schema identity, not what functions do.",
  "note": "Assumes protobuf re-encoding of schema-identical messages is lossless and generated accessors return their field. Not decided: selector matching semantics, gRPC delivery, byte equality.",
  "technique": "static analysis: SSA phi/provenance analysis of loop-carried values, loop-bypass analysis, struct-tag table agreement between generated packages, lockset analysis",
 },
 "C06": {
  "text": "Static analysis of both claim syncers and the claim reconciler: the XR write is reached only over the success edge of a resourceVersion-checked claim Update that follows SetResourceReference(reference of the XR object written) (client-side: or the already-recorded edge); the written XR is named from cm.GetResourceReference().Name before any name is generated; every effect on the XR in the reconciler crosses 'XR not created, no claimRef, or claimRef == this claim' and is unreachable from the not-equal edge. Decides ordering and provenance, not API-server concurrency control.",
  "note": "Assumes client.Update is rejected when the resourceVersion is stale. Not decided: stale caches, interleavings with the XR reconciler, generated-name collisions.",
  "technique": "static analysis: gate-crossing reachability on go/ssa CFG, SSA provenance (access paths of call results)",
 },
 "C07": {
  "text": "Static analysis: field paths of the claim/XR accessors crossplane calls (extracted from crossplane-runtime method bodies) are covered by the xcrd filter tables; PropagateSpecProps and the fields the statement names lie where they must; the XR spec written is withoutKeys(claim spec, claim table minus allowed keys) and withoutKeys is top-level and value-preserving; status and metadata pass their filters; external name / compositionRef / revisionRef flow back only on their edges; no bulk XR-spec to claim-spec flow (one open known finding: the client-side syncer's late-initialisation merge). Decides table agreement and filter application, not value equality.",
  "note": "Assumes fieldpath accessors touch exactly their constant path. Not decided: value equality, CRD pruning, SSA field ownership. Known finding F6 (open): ClientSideCompositeSyncer merges XR spec into claim spec.",
  "technique": "static analysis: constant-table extraction and inclusion (AST + go/types), SSA provenance of filter arguments, gate-crossing reachability",
 },
 "C09": {
  "text": "Static analysis of the connection-secret path: both publishers store a key only on the filter-empty-or-listed edge with the allow map built from the whole configured filter; nothing is written unless the owner asks for a secret; the XR secret Apply carries the owner guard and a nil==empty no-op suppression on .Data; every publisher built by the XRD controller gets the XRD's key list; the details published are this reconcile's Compose result; the claim secret is written only on the source-controller-UID==XR-UID edge and its data is exactly the source's. Decides filtering/gating/provenance, not extraction values.",
  "note": "Assumes the runtime Applicator honours its options. Not decided: value-level extraction, pre-existing secret contents.",
  "technique": "static analysis: gate-crossing reachability, SSA provenance of filter/option arguments, predicate-closure inspection",
 },
 "C10": {
  "text": "Static analysis of the P&T renderer: every dispatching switch is exhaustive over its enum and fails closed; the conversions table is complete; each of the 53 optional-pointer dereferences is guarded by a nil test of the same access path, an assignment from a tested path or a successful Validate() that rejects nil; user-supplied indices are bounded on both sides; no panicking type assertion; patches never hand their source to a mutating call; a rendered object is stored for application only on feasible paths (flag constants propagated) that crossed the success edge of all three render steps. Decides totality/ordering shapes and name-to-operation agreement, not arithmetic or round-trip laws.",
  "note": "Assumes fieldpath stores deep copies. Not decided: purity as a function, wildcard expansion, transform arithmetic, convert round trips, hostile format strings. Finding F3 (fixed by f622d90) is re-derived by R10.3 on the pre-fix code.",
  "technique": "static analysis: enum exhaustiveness, nil-guard dominance by access path, bound-check edges, feasible-path enumeration with constant flag propagation",
 },
 "C11": {
  "text": "Static analysis of the CRD derivation: author-derived property stores precede and never follow the machinery property stores into the same map; each field of the version/CRD literals comes from its stated source; Required/XValidations/OneOf/XPreserveUnknownFields are carried from the parsed author schema and the author loops have no filter; claim names are validated before the claim CRD is built and validateClaimNames succeeds only past all four comparisons; ValidateUpdate compares the immutable names; the webhook validates first and only dry-runs. Decides construction order and provenance, not schema fidelity for arbitrary OpenAPI.",
  "note": "Assumes the last store to a map key wins. Not decided: arbitrary OpenAPI fidelity, 'exactly one referenceable version', API-server defaulting.",
  "technique": "static analysis: store ordering on go/ssa, access-path provenance of struct literals, gate-crossing reachability",
 },
 "C12": {
  "text": "Static analysis of the revision controller and fetcher: only Spec.Revision and owner references of listed revisions are written; the hash written and compared share source and truncation; no adoption of list elements is reachable after LatestRevision and adoption acts in place; every number stored/created is latestRev+1, creation needs the no-match edge, a failed renumbering never ends as plain success; LatestRevision skips uncontrolled revisions; Manual pins without writing. Decides these shapes, not histories as values.",
  "note": "Not decided: A-B-A histories over several reconciles, crash points, hash collisions. Finding F5 (fixed by 3a4fff5) is re-derived by R12.3 on the pre-fix code.",
  "technique": "static analysis: effect-after-aggregate reachability (reader/writer of controller-ness), SSA provenance, gate-crossing reachability",
 },
 "C14": {
  "text": "Static analysis of the package manager: the current revision is applied only after the loop over all revisions completed with every other Active revision applied Inactive (any failure leaves); renumbering happens after the loop to running-max+1; the history delete is gated by the three limit conditions; within an iteration the GC candidate is recorded only past name != currentRevision; names derive only from the revisioner (FriendlyID(name, digest|source)). Decides ordering shapes, not 'at every instant' across crashes.",
  "note": "Not decided: crash points between applies, registry behaviour. Finding F4 (fixed by d680c1b) is re-derived by R14.4 on the pre-fix code.",
  "technique": "static analysis: loop-exit and within-iteration reachability, loop-carried phi analysis (running maximum, candidate index), gate-crossing reachability",
 },
 "C15": {
  "text": "Static analysis of the revision reconciler, linters, cache and image backend: Establish is reached only past verified, ok(Parse), ok(Lint), exactly-one-meta and compatibility, and establishes pkg.GetObjects() of that parse; each revision type is wired with its own linter and the meta/object schemes; every return after parsing started is dominated by the cache-write receive, failed writes evict, Store is unreachable under PullNever on flag-consistent paths, cache file operations hold the mutex; the backend rejects a second annotated layer and validates content; Verified=True is set only after ok(Validate) or without config. Decides gating and cache discipline, not byte equality.",
  "note": "Not decided: equality declared = established over contents, registry vs cache bytes, xpkg build round trip as values.",
  "technique": "static analysis: gate-crossing reachability, dominator checks, feasible-path enumeration with flag/predicate consistency, lockset analysis, sibling agreement over Setup functions",
 },
 "C13": {
  "text": "Static lockset and lock-order analysis of the engine and function-runner packages (path-sensitive in the lock state, conditional-defer idiom handled): guarded-by facts for the four shared maps on every path, pairing, acyclic held-to-acquired graph closed over calls made under a lock; watch start/stop actions re-decided under the write lock; one source per id after ok(Watch); the watch collector's stop list only takes ids compared equal to WatchTypeComposedResource. Decides the discipline on the named fields and mutexes, not absence of races/deadlocks as a whole-program theorem.",
  "note": "Locks are identified by struct type and field (instance-insensitive). Not decided: informer behaviour, scheduling, whole-program race freedom. Finding F1 (fixed by commit 958191f) is re-derived by R13.6 on the pre-fix code.",
  "technique": "static analysis: forward lockset / lock-order analysis on go/ssa, gate-crossing reachability, slice growth provenance",
 },
 "C08": {
  "text": "Static typestate analysis over every CFG path of the five teardown reconcilers and engine.Stop: finalizer removal, CRD delete and controller stop are each gated by the success edges / guards the dependency order needs. Decides the ordering discipline inside one reconcile, not the cross-controller interleavings.",
  "note": "Assumes API calls are atomic and acknowledged deletes take effect; interface calls resolve to the production implementations. Not decided: joint ordering across controllers and Kubernetes GC, third-party finalizer removal, multi-reconcile fault sequences.",
  "technique": "static analysis: gate-crossing reachability (typestate) on go/ssa CFG with error-edge and guard-edge events, sibling agreement definition/offered",
 },
}
NOT_APPLICABLE = {f"C{n:02d}": PENDING for n in range(1, 21) if f"C{n:02d}" not in CHECKS}
