#!/bin/bash
# run.sh <property|all> [quick|thorough]   — decide one property on /repo's current working tree
# run.sh --replay <path>                  — print a replay file and re-run its property
set -u
cd "$(dirname "$0")"
export GOFLAGS=-mod=mod GOPROXY=off GOSUMDB=off GOTOOLCHAIN=local GOWORK=off CGO_ENABLED=0
export GOMAXPROCS=${GOMAXPROCS:-16}
REPO=${VERIF_REPO:-/repo}
if [ "${1:-}" = "--replay" ]; then
  f="${2:?path}"
  cat "$f" 2>/dev/null || true
  prop=$(sed -n 's/^property: //p' "$f" 2>/dev/null | head -1)
  [ -z "$prop" ] && prop=$(basename "$(dirname "$f")" | sed 's/\..*//')
  set -- "$prop" quick
fi
prop="${1:?property id}"
tier="${2:-${VERIF_TIER:-quick}}"
if [ ! -x bin/xpcheck ] || [ -n "$(find checker -newer bin/xpcheck -type f \( -name '*.go' -o -name '*.txt' -o -name 'go.mod' -o -name 'go.sum' \) -print -quit 2>/dev/null)" ]; then
  (cd checker && go build -o ../bin/xpcheck.new.$$ ./cmd/xpcheck && mv ../bin/xpcheck.new.$$ ../bin/xpcheck) || { echo "VIOLATION property=$prop replay=/verif/evidence/$prop.json reason=undecided: checker does not build"; exit 1; }
fi
exec bin/xpcheck -property "$prop" -tier "$tier" -repo "$REPO" -evidence-dir /verif/evidence -known /verif/known_findings.json
